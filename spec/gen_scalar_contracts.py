#!/opt/veriftools/pyvenv/bin/python
"""Generates /repo/zz_contracts_scalar_verif.go: hand-written base contracts (scalar_base.contracts.go.txt)
+ lazy combinator contracts derived from the eager ones + per-operation contracts whose derivative
formulas are produced by symbolic differentiation (sympy) of the function each operation is NAMED after
(ops table below) -- never copied from the code."""
import re, sys
import sympy as sp

base = open('/verif/spec/scalar_base.contracts.go.txt').read()
out = [base.rstrip('\n'), '']

# --- lazy combinators -------------------------------------------------------------------------
def block(name):
    m = re.search(r'(//@ func \(\*\$R\)\.%s \[also.*?\n)(.*?)(?=\n//@ end|\n//@ func )' % name, base, re.S)
    return m.group(1), m.group(2)

head, body = block('monadic')
lazy = body
lazy = re.sub(r'(//@   ensures lift1_post_\$R\(c, a, v0, )v1, v2\)', r'\1old(call(f1)), old(call(f2)))', lazy)
out.append('// lazy variants (derived from the eager contracts by gen_scalar_contracts.py)')
out.append('//@ for $R,$F,$T in (Real64,float64,@), (Real32,float32,+)')
out.append('//@ propsdefault C01$T C08$T')
out.append('//@ func (*$R).monadicLazy [also: (*$R).realMonadicLazy]')
out.append(lazy)
head, body = block('dyadic')
lazy = body
lazy = lazy.replace('lift2_post_$R(c, a, b, v0, v10, v01, v11, v20, v02)', 'lift2_post_$R(c, a, b, v0, old(call0(f1)), old(call1(f1)), old(call0(f2)), old(call1(f2)), old(call2(f2)))')
out.append('//@ func (*$R).dyadicLazy [also: (*$R).realDyadicLazy]')
out.append(lazy)
out.append('//@ end')
out.append('')

# --- operations ---------------------------------------------------------------------------------
x, y = sp.symbols('x y', real=True)
class UF(sp.Function):
    pass
def mkuf(name, d=None):
    # unary uninterpreted function with derivative given by callable d(arg)
    def fdiff(self, argindex=1):
        if d is None:
            raise NotImplementedError(name)
        return d(self.args[0])
    return type(name, (sp.Function,), {'fdiff': fdiff, 'nargs': 1})
trigamma = mkuf('trigamma')
digamma = mkuf('digamma', lambda a: trigamma(a))
gamma_ = mkuf('gamma', lambda a: gamma_(a) * digamma(a))
lgamma = mkuf('lgamma', lambda a: digamma(a))
SQRTPI = sp.Symbol('SQRTPI', positive=True)
erf_ = mkuf('erf', lambda a: 2 * ex_(-a * a) / SQRTPI)
erfc_ = mkuf('erfc', lambda a: -2 * ex_(-a * a) / SQRTPI)
ex_ = mkuf('exp', lambda a: ex_(a))
log_ = mkuf('log', lambda a: 1 / a)
sin_ = mkuf('sin', lambda a: cos_(a))
cos_ = mkuf('cos', lambda a: -sin_(a))
sinh_ = mkuf('sinh', lambda a: cosh_(a))
cosh_ = mkuf('cosh', lambda a: sinh_(a))
tan_ = mkuf('tan', lambda a: 1 + tan_(a) ** 2)
tanh_ = mkuf('tanh', lambda a: 1 - tanh_(a) ** 2)
log1p_ = mkuf('log1p', lambda a: 1 / (1 + a))

def pr(e):
    """print a sympy expression in the contract expression syntax"""
    e = sp.sympify(e)
    if e.is_Symbol:
        return str(e)
    if e.is_Integer:
        return str(int(e)) if e >= 0 else '(%d)' % int(e)
    if e.is_Rational:
        return '(%d.0/%d.0)' % (e.p, e.q) if e.p >= 0 else '(0 - %d.0/%d.0)' % (-e.p, e.q)
    if e.is_Float:
        return repr(float(e))
    if e.is_Add:
        ts = e.as_ordered_terms()
        s = pr(ts[0])
        for t in ts[1:]:
            s += ' + ' + pr(t)
        return '(' + s + ')'
    if e.is_Mul:
        c, rest = e.as_coeff_Mul()
        num, den = [], []
        if c != 1:
            if c == -1:
                num.append('(0 - 1)')
            else:
                num.append(pr(c))
        for f in sp.Mul.make_args(rest):
            if f.is_Pow and f.exp.is_Number and f.exp < 0:
                den.append(pr(sp.Pow(f.base, -f.exp)))
            else:
                num.append(pr(f))
        s = ' * '.join(num) if num else '1'
        if den:
            s = '(' + s + ') / (' + ' * '.join(den) + ')'
        return '(' + s + ')'
    if e.is_Pow:
        b, p = e.base, e.exp
        if p.is_Integer and 1 <= p <= 4:
            return '(' + ' * '.join([pr(b)] * int(p)) + ')'
        if p.is_Integer and -4 <= p <= -1:
            return '(1 / (' + ' * '.join([pr(b)] * int(-p)) + '))'
        if p == sp.Rational(1, 2):
            return 'sqrt(%s)' % pr(b)
        return 'pow(%s, %s)' % (pr(b), pr(p))
    if isinstance(e, sp.Function):
        if type(e).__name__ == 'exp' and e.args[0].could_extract_minus_sign():
            return '(1 / exp(%s))' % pr(-e.args[0])
        return '%s(%s)' % (type(e).__name__, ', '.join(pr(a) for a in e.args))
    raise ValueError('cannot print %r' % e)

# monadic operations: name -> spec f(x) ; code reads x := a.GetFloat64()
MON = {
    'Neg':   -x,
    'Sin':   sin_(x), 'Sinh': sinh_(x), 'Cos': cos_(x), 'Cosh': cosh_(x),
    'Tan':   tan_(x), 'Tanh': tanh_(x),
    'Exp':   ex_(x), 'Log': log_(x), 'Log1p': log1p_(x),
    'Erf':   erf_(x), 'Erfc': erfc_(x),
    'Gamma': gamma_(x), 'Lgamma': lgamma(x),
}
MON_CALLEE = {'Neg': 'monadic'}
TWIN = {'Neg': 'NEG', 'Add': 'ADD', 'Sub': 'SUB', 'Mul': 'MUL', 'Div': 'DIV', 'Exp': 'EXP', 'Log': 'LOG', 'Log1p': 'LOG1P'}
# domain preconditions (real model): where the named function / its closed-form derivative is defined
DOMAIN = {'Lgamma': 'val(a) > 0', 'Log': 'val(a) > 0', 'Log1p': 'val(a) > 0 - 1'}
DYA = {
    'Add': x + y, 'Sub': x - y, 'Mul': x * y, 'Div': x / y,
}

out.append('// ---------------------------------------------------------------------------')
out.append('// operations: value and first/second derivative coefficients against the NAMED function')
out.append('// (formulas below are generated by symbolic differentiation; see /verif/spec/gen_scalar_contracts.py)')
out.append('')
out.append('//@ for $R,$F,$T in (Real64,float64,@), (Real32,float32,+)')
out.append('//@ propsdefault C01$T C02$T C08$T C09$T')
for name, f in MON.items():
    f1 = sp.diff(f, x)
    f2 = sp.diff(f1, x)
    callee = MON_CALLEE.get(name, 'monadicLazy')
    callee = callee + '|real' + callee[0].upper() + callee[1:]
    sub = lambda e: pr(e).replace('x', 'val(a)') if False else pr(e)
    X = 'val(a)'
    def inst(e):
        return re.sub(r'\bx\b', X, pr(e))
    out.append('//@ func (*$R).%s' % name + (' [also: (*$R).%s]' % TWIN[name] if name in TWIN else ''))
    out.append('//@   model split')
    out.append('//@   requires RI_$R(c) && RIc(a) && sep_$R(c, a)')
    if name in DOMAIN:
        out.append('//@   requires ' + DOMAIN[name])
    if 'Lazy' in callee:
        out.append('//@   site %s @v0 v0 == %s' % (callee, inst(f)))
        out.append('//@   site %s @v1 call(f1) == %s' % (callee, inst(f1)))
        out.append('//@   site %s @v2 call(f2) == %s' % (callee, inst(f2)))
    else:
        out.append('//@   site %s @v0 v0 == %s' % (callee, inst(f)))
        out.append('//@   site %s @v1 v1 == %s' % (callee, inst(f1)))
        out.append('//@   site %s @v2 v2 == %s' % (callee, inst(f2)))
    XO = 'old(val(a))'
    def insto(e):
        return re.sub(r'\bx\b', XO, pr(e))
    out.append('//@   ensures isa(*$R, result) && as(*$R, result) == c')
    out.append('//@   ensures lift1_post_$R(c, a, %s, %s, %s)' % (insto(f), insto(f1), insto(f2)))
    out.append('//@   modifies $R.Value@{c}, $R.N@{c}, $R.Order@{c}, $R.Derivative@{c}, $R.Hessian@{c}, []$F@{q :: owns_$R(c, q)}')
    out.append('')
for name, f in DYA.items():
    d = {'v10': sp.diff(f, x), 'v01': sp.diff(f, y), 'v11': sp.diff(f, x, y), 'v20': sp.diff(f, x, 2), 'v02': sp.diff(f, y, 2)}
    def inst(e, X='val(a)', Y='val(b)'):
        s = pr(e)
        s = re.sub(r'\bx\b', X, s)
        return re.sub(r'\by\b', Y, s)
    out.append('//@ func (*$R).%s' % name + (' [also: (*$R).%s]' % TWIN[name] if name in TWIN else ''))
    out.append('//@   model split')
    out.append('//@   requires RI_$R(c) && RIc(a) && RIc(b) && sep_$R(c, a) && sep_$R(c, b) && constNoVars(a) && constNoVars(b)')
    if name == 'Div':
        out.append('//@   requires val(b) != 0')
    out.append('//@   panics_when order(a) >= 1 && order(b) >= 1 && nvars(a) != nvars(b)')
    out.append('//@   site dyadic|realDyadic @v0 v0 == %s' % inst(f))
    for k in ['v10', 'v01', 'v11', 'v20', 'v02']:
        out.append('//@   site dyadic|realDyadic @%s %s == %s' % (k, k, inst(d[k])))
    o = lambda e: inst(e, 'old(val(a))', 'old(val(b))')
    out.append('//@   ensures isa(*$R, result) && as(*$R, result) == c')
    out.append('//@   ensures lift2_post_$R(c, a, b, %s, %s, %s, %s, %s, %s)' % (o(f), o(d['v10']), o(d['v01']), o(d['v11']), o(d['v20']), o(d['v02'])))
    out.append('//@   modifies $R.Value@{c}, $R.N@{c}, $R.Order@{c}, $R.Derivative@{c}, $R.Hessian@{c}, []$F@{q :: owns_$R(c, q)}')
    out.append('')
# Pow: x^y through dyadicLazy when the exponent carries derivatives, through monadicLazy when it is a constant
fpow = x**y
dp = {'v10': sp.diff(fpow, x), 'v01': sp.diff(fpow, y), 'v11': sp.diff(fpow, x, y), 'v20': sp.diff(fpow, x, 2), 'v02': sp.diff(fpow, y, 2)}
def instp(e, X='val(a)', Y='val(k)'):
    t = pr(e)
    t = re.sub(r'\bx\b', X, t)
    return re.sub(r'\by\b', Y, t)
out.append('//@ func (*$R).Pow [also: (*$R).POW]')
out.append('//@   model split')
out.append('//@   requires RI_$R(c) && RIc(a) && RIc(k) && sep_$R(c, a) && sep_$R(c, k) && constNoVars(a) && constNoVars(k)')
out.append('//@   requires val(a) > 0')
out.append('//@   panics_when order(a) >= 1 && order(k) >= 1 && nvars(a) != nvars(k)')
D2 = 'dyadicLazy|realDyadicLazy'
instb = lambda e: instp(e, 'val(a)', 'val(b)')
out.append('//@   site %s @v0 v0 == %s' % (D2, instb(fpow)))
out.append('//@   site %s @v10 call0(f1) == %s' % (D2, instb(dp['v10'])))
out.append('//@   site %s @v01 call1(f1) == %s' % (D2, instb(dp['v01'])))
out.append('//@   site %s @v11 call0(f2) == %s' % (D2, instb(dp['v11'])))
out.append('//@   site %s @v20 call1(f2) == %s' % (D2, instb(dp['v20'])))
out.append('//@   site %s @v02 call2(f2) == %s' % (D2, instb(dp['v02'])))
M1 = 'monadicLazy|realMonadicLazy'
out.append('//@   site %s @m0 v0 == %s' % (M1, instp(fpow)))
out.append('//@   site %s @m1 call(f1) == %s' % (M1, instp(dp['v10'])))
out.append('//@   site %s @m2 call(f2) == %s' % (M1, instp(dp['v20'])))
op_ = lambda e: instp(e, 'old(val(a))', 'old(val(k))')
out.append('//@   ensures isa(*$R, result) && as(*$R, result) == c')
out.append('//@   ensures @dy old(order(k)) >= 1 ==> lift2_post_$R(c, a, k, %s, %s, %s, %s, %s, %s)' % (op_(fpow), op_(dp['v10']), op_(dp['v01']), op_(dp['v11']), op_(dp['v20']), op_(dp['v02'])))
out.append('//@   ensures @mo old(order(k)) == 0 ==> lift1_post_$R(c, a, %s, %s, %s)' % (op_(fpow), op_(dp['v10']), op_(dp['v20'])))
out.append('//@   modifies $R.Value@{c}, $R.N@{c}, $R.Order@{c}, $R.Derivative@{c}, $R.Hessian@{c}, []$F@{q :: owns_$R(c, q)}')
out.append('')
out.append('//@ end')
out.append('')

# --- composite operations: jet-level check (engine/jet.go) -------------------------------------------
sig = 1 / (1 + ex_(-x))
COMP1 = {            # name -> (spec, domain requires, alias patterns, extra scalar params are temporaries)
    'Logistic': (sig, None),
    'Sigmoid':  (sig, None),
    'Sqrt':     (sp.sqrt(x), 'x > 0'),
}
COMP2 = {
    'LogAdd':   (log_(ex_(x) + ex_(y)), None),
    'LogSub':   (log_(ex_(x) - ex_(y)), 'x > y'),
}
RECV = '(*$R)'
VALUEONLY = False
def jetblock(name, f, req, two):
    out.append('//@ func %s.%s' % (RECV, name))
    if VALUEONLY:
        out.append('//@   jetvalueonly')
    out.append('//@   jetspec %s' % pr(f))
    if req:
        out.append('//@   jetrequires %s' % req)
    vs = ['x', 'y'] if two else ['x']
    syms = {'x': x, 'y': y}
    for v in vs:
        out.append('//@   jetd @d%s %s' % (v, pr(sp.diff(f, syms[v]))))
    for i, v in enumerate(vs):
        for w in vs[i:]:
            out.append('//@   jetd @d%s%s %s' % (v, w, pr(sp.diff(f, syms[v], syms[w]))))
    out.append('//@   jetalias c=a')
    if two:
        out.append('//@   jetalias c=b')
        out.append('//@   jetalias c=a=b')
    out.append('')
def piecewise_block(name, pieces, last, note):
    """pieces: [(upper bound text, sympy expr)], last: expr above the last bound. The spec of a function that is
    evaluated through range-wise expansions: each piece is the standard expansion of the NAMED function on its range
    (written here from the mathematics, not from the code)."""
    def nest(fn):
        t = pr(fn(last))
        for ub, e in reversed(pieces):
            t = 'ite(x <= %s, %s, %s)' % (ub, pr(fn(e)), t)
        return t
    out.append('//@ func %s.%s' % (RECV, name))
    out.append('//   ' + note)
    if VALUEONLY:
        out.append('//@   jetvalueonly')
    out.append('//@   jetspec %s' % nest(lambda e: e))
    out.append('//@   jetd @dx %s' % nest(lambda e: sp.diff(e, x)))
    out.append('//@   jetd @dxx %s' % nest(lambda e: sp.diff(e, x, 2)))
    out.append('')
PIECEWISE = [
    ('Log1pExp', [('(0 - 37.0)', ex_(x)), ('18.0', log_(1 + ex_(x))), ('(2343279181116211.0 / 70368744177664.0)', x + ex_(-x))], x,
     'log(1 + exp(x)): exp(x) below -37 (relative error < exp(-37)), exact in between, x + exp(-x) up to 33.3 (the float64 nearest to it, as in the code), x above (error < exp(-33.3)); receiver == operand is not claimed'),
]
out.append('// composite operations (jet-level symbolic execution over the proved primitives)')
out.append('//@ for $R,$T in (Real64,@), (Real32,@)')
out.append('//@ propsdefault C01$T C02$T C08$T C09$T')
for name, (f, req) in COMP1.items():
    jetblock(name, f, req, False)
for name, (f, req) in COMP2.items():
    jetblock(name, f, req, True)
for name, pieces, last, note in PIECEWISE:
    piecewise_block(name, pieces, last, note)
# |x| with the convention d|x|/dx = 0 at x = 0 (the generic method resets the result there); generic and concrete twin
out.append('//@ func %s.Abs [also: %s.ABS]' % (RECV, RECV))
if VALUEONLY:
    out.append('//@   jetvalueonly')
out.append('//@   jetspec ite(x >= 0, x, 0 - x)')
out.append('//@   jetd @dx ite(x > 0, 1, ite(x < 0, 0 - 1, 0))')
out.append('//@   jetd @dxx 0')
out.append('//@   jetalias c=a')
out.append('')
out.append('//@ end')
out.append('')

RECV = '($S)'
VALUEONLY = True
out.append('// the same composites on the plain float scalars (value only)')
out.append('//@ for $S,$T in (Float64,@), (Float32,@)')
out.append('//@ propsdefault C02$T C09$T')
for name, (f, req) in COMP1.items():
    jetblock(name, f, req, False)
for name, (f, req) in COMP2.items():
    jetblock(name, f, req, True)
for name, pieces, last, note in PIECEWISE:
    piecewise_block(name, pieces, last, note)
# |x| with the convention d|x|/dx = 0 at x = 0 (the generic method resets the result there); generic and concrete twin
out.append('//@ func %s.Abs [also: %s.ABS]' % (RECV, RECV))
if VALUEONLY:
    out.append('//@   jetvalueonly')
out.append('//@   jetspec ite(x >= 0, x, 0 - x)')
out.append('//@   jetd @dx ite(x > 0, 1, ite(x < 0, 0 - 1, 0))')
out.append('//@   jetd @dxx 0')
out.append('//@   jetalias c=a')
out.append('')
out.append('//@ end')
out.append('')

RECV = '(*$R)'
VALUEONLY = False
# ops.json: coefficient triples of the primitives (and summaries of verified composites) for the jet evaluator
import json
ops = {}
for name, f in MON.items():
    ops[name] = {'arity': 1, 'e': {'f': pr(f), 'f1': pr(sp.diff(f, x)), 'f2': pr(sp.diff(f, x, 2))}}
for name, f in DYA.items():
    ops[name] = {'arity': 2, 'e': {'f': pr(f), 'fx': pr(sp.diff(f, x)), 'fy': pr(sp.diff(f, y)), 'fxx': pr(sp.diff(f, x, 2)), 'fxy': pr(sp.diff(f, x, y)), 'fyy': pr(sp.diff(f, y, 2))}}
powf = sp.Function('pow')
class powuf(sp.Function):
    nargs = 2
    def fdiff(self, argindex=1):
        b, e = self.args
        if argindex == 1:
            return e * powuf(b, e - 1)
        return powuf(b, e) * log_(b)
powuf.__name__ = 'pow'
fpow = powuf(x, y)
ops['Pow'] = {'arity': 2, 'assumed': True, 'e': {'f': pr(fpow), 'fx': pr(sp.diff(fpow, x)), 'fy': pr(sp.diff(fpow, y)), 'fxx': pr(sp.diff(fpow, x, 2)), 'fxy': pr(sp.diff(fpow, x, y)), 'fyy': pr(sp.diff(fpow, y, 2))}}
for name, (f, req) in COMP1.items():
    ops[name] = {'arity': 1, 'composite': True, 'e': {'f': pr(f), 'f1': pr(sp.diff(f, x)), 'f2': pr(sp.diff(f, x, 2))}}
for name, (f, req) in COMP2.items():
    ops[name] = {'arity': 2, 'composite': True, 'e': {'f': pr(f), 'fx': pr(sp.diff(f, x)), 'fy': pr(sp.diff(f, y)), 'fxx': pr(sp.diff(f, x, 2)), 'fxy': pr(sp.diff(f, x, y)), 'fyy': pr(sp.diff(f, y, 2))}}
ops['Abs'] = {'arity': 1, 'composite': True, 'e': {'f': 'abs(x)', 'f1': 'ite(x > 0, 1, ite(x < 0, 0 - 1, 0))', 'f2': '0'}}
json.dump(ops, open('/verif/spec/ops.json', 'w'), indent=1, sort_keys=True)

# --- refinement of the interface model functions by every covered implementation --------------
out.append('// ---------------------------------------------------------------------------')
out.append('// the getters of each covered scalar type refine the interface model functions (C02: equal operands give')
out.append('// equal values whatever scalar type holds them)')
out.append('//@ propsdefault C02')
out.append('//@ for $S in (*Real64), (*Real32), (Float64), (Float32), (ConstFloat64), (ConstFloat32)')
out.append('//@ func $S.GetFloat64')
out.append('//@   requires RIc(a)')
out.append('//@   ensures result == val(a)')
out.append('//@   pure')
out.append('//@ func $S.GetFloat32')
out.append('//@   requires RIc(a)')
out.append('//@   ensures result == val(a)')
out.append('//@   pure')
for g in ('GetInt', 'GetInt8', 'GetInt16', 'GetInt32', 'GetInt64'):
    out.append('//@ func $S.%s' % g)
    out.append('//@   requires RIc(a)')
    out.append('//@   ensures result == trunc(val(a))')
    out.append('//@   pure')
out.append('//@ func $S.GetOrder')
out.append('//@   requires RIc(a)')
out.append('//@   ensures result == order(a)')
out.append('//@   pure')
out.append('//@ func $S.GetN')
out.append('//@   requires RIc(a)')
out.append('//@   ensures result == nvars(a)')
out.append('//@   pure')
out.append('//@ func $S.GetDerivative')
out.append('//@   requires RIc(a) && (order(a) >= 1 ==> 0 <= i && i < nvars(a))')
out.append('//@   ensures result == D(a, i)')
out.append('//@   pure')
out.append('//@ func $S.GetHessian')
out.append('//@   requires RIc(a) && (order(a) >= 2 ==> 0 <= i && i < nvars(a) && 0 <= j && j < nvars(a))')
out.append('//@   ensures result == H(a, i, j)')
out.append('//@   pure')
out.append('//@ end')
out.append('//@ for $S in (*Real64), (*Real32)')
out.append('//@ func $S.GetLogValue')
out.append('//@   requires RIc(a)')
out.append('//@   ensures result == log(val(a))')
out.append('//@   pure')
out.append('//@ end')
out.append('')

# --- plain float scalars: value of every covered operation ---------------------------------------
FTWIN = {'Neg': 'NEG', 'Add': 'ADD', 'Sub': 'SUB', 'Mul': 'MUL', 'Div': 'DIV'}
out.append('//@ propsdefault C02 C08 C09')
out.append('//@ for $S,$F in (Float64,float64), (Float32,float32)')
out.append('//@ spec okF_$S(c $S) bool = c.ptr != nil')
for name, f in list(MON.items()) + list(DYA.items()):
    two = name in DYA
    def insto(e):
        t = re.sub(r'\bx\b', 'old(val(a))', pr(e))
        return re.sub(r'\by\b', 'old(val(b))', t)
    out.append('//@ func ($S).%s' % name + (' [also: ($S).%s]' % FTWIN[name] if name in FTWIN else ''))
    out.append('//@   requires okF_$S(c) && RIc(a)' + (' && RIc(b)' if two else ''))
    if name in DOMAIN:
        out.append('//@   requires ' + DOMAIN[name])
    if name == 'Div':
        out.append('//@   requires val(b) != 0')
    out.append('//@   ensures deref(c.ptr) == %s' % insto(f))
    out.append('//@   ensures isa($S, result) && as($S, result) == c')
    out.append('//@   ensures forall k int :: k != off(c.ptr) ==> row($F, base(c.ptr))[k] == old(row($F, base(c.ptr))[k])')
    out.append('//@   modifies []$F@{c.ptr}')
    out.append('')
out.append('//@ end')
open('/repo/zz_contracts_scalar_verif.go', 'w').write('\n'.join(out) + '\n')
print('written', len(out), 'lines')
