; Spec prelude: axioms about uninterpreted mathematical functions.
; Each block starts with "; needs: f g ..." (internal names) and is included in a query only if
; all listed function symbols occur in that query. Symbols are printed with the prefix "u.".

; needs: at
(assert (forall ((o Int) (k Int)) (! (= (u.at o k) (+ o k)) :pattern ((u.at o k)))))

; needs: rmul
(assert (forall ((x Real) (y Real)) (! (= (u.rmul x y) (u.rmul y x)) :pattern ((u.rmul x y)))))
(assert (forall ((x Real) (y Real)) (! (=> (= x 0.0) (= (u.rmul x y) 0.0)) :pattern ((u.rmul x y)))))

; needs: exp
(assert (forall ((x Real)) (! (> (u.exp x) 0.0) :pattern ((u.exp x)))))

; needs: sqrtpi
(assert (> u.sqrtpi 0.0))

; needs: sqrtpi pi
(assert (= (* u.sqrtpi u.sqrtpi) u.pi))

; needs: pi
(assert (and (> u.pi 3.14159) (< u.pi 3.1416)))

; needs: lgammasign
(assert (forall ((x Real)) (! (=> (> x 0.0) (= (u.lgammasign x) 1)) :pattern ((u.lgammasign x)))))
