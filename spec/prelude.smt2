; Spec prelude: axioms about uninterpreted mathematical functions.
; Each block starts with "; needs: f g ..." and is included in a query only if
; all listed function symbols occur in that query.

; needs: at
(assert (forall ((o Int) (k Int)) (! (= (at o k) (+ o k)) :pattern ((at o k)))))

; needs: rmul
(assert (forall ((x Real) (y Real)) (! (= (rmul x y) (rmul y x)) :pattern ((rmul x y)))))
