; Spec prelude: axioms about uninterpreted mathematical functions.
; Each block starts with "; needs: f g ..." and is included in a query only if
; all listed function symbols occur in that query.
