package main

// Evaluation of contract expressions in a symbolic state.

import (
	"fmt"
	"go/token"
	"go/types"
	"math/big"
	"strings"
)

type CVal struct {
	T   *Term
	Typ types.Type // nil for pure logic values
	Nil bool       // untyped nil
}

type CEnv struct {
	ex    *Exec
	vars  map[string]*CVal
	st    *State
	old   *State
	pkg   *types.Package
	fr    *Frame // for source-name lookup (may be nil)
	depth int
	reach *Term
}

type cevalErr struct{ msg string }

func (c *CEnv) err(format string, a ...interface{}) {
	panic(cevalErr{fmt.Sprintf(format, a...)})
}

func (c *CEnv) with(st *State) *CEnv {
	n := *c
	n.st = st
	return &n
}

func (c *CEnv) bind(name string, v *CVal) *CEnv {
	n := *c
	n.vars = make(map[string]*CVal, len(c.vars)+1)
	for k, x := range c.vars {
		n.vars[k] = x
	}
	n.vars[name] = v
	return &n
}

func (c *CEnv) resolveType(s string) types.Type {
	s = strings.TrimSpace(s)
	switch s {
	case "int":
		return types.Typ[types.Int]
	case "bool":
		return types.Typ[types.Bool]
	case "float64":
		return types.Typ[types.Float64]
	case "float32":
		return types.Typ[types.Float32]
	}
	tv, err := types.Eval(c.ex.V.prog.Fset, c.pkg, token.NoPos, s)
	if err != nil {
		// try root package
		if rp := c.ex.V.ppkgs[c.ex.V.rootPath]; rp != nil && rp.Types != c.pkg {
			tv, err = types.Eval(c.ex.V.prog.Fset, rp.Types, token.NoPos, s)
		}
		if err != nil {
			c.err("cannot resolve type %q: %v", s, err)
		}
	}
	return tv.Type
}

func logicSort(s string) *Sort {
	switch s {
	case "int", "Int":
		return SInt
	case "real", "Real":
		return SReal
	case "bool", "Bool":
		return SBool
	case "intarr":
		return SArr(SInt, SInt)
	case "realarr":
		return SArr(SInt, SReal)
	case "realarr2":
		return SArr(SInt, SArr(SInt, SReal))
	case "slice":
		return SSlice
	case "ptr":
		return SPtr
	case "iface":
		return SIface
	}
	return nil
}

var mathUF = map[string]int{"exp": 1, "log": 1, "log1p": 1, "sin": 1, "cos": 1, "tan": 1, "sinh": 1, "cosh": 1, "tanh": 1,
	"sqrt": 1, "erf": 1, "erfc": 1, "gamma": 1, "lgamma": 1, "digamma": 1, "trigamma": 1, "logerfc": 1, "pow": 2,
	"gammap": 2, "besseli": 2, "logbesseli": 2, "mlgamma": 2, "floor": 1, "expm1": 1}

func (c *CEnv) Eval(e *Expr) (res *CVal, err error) {
	defer func() {
		if r := recover(); r != nil {
			if ce, ok := r.(cevalErr); ok {
				err = fmt.Errorf("%s", ce.msg)
				return
			}
			if u, ok := r.(unsupported); ok {
				err = fmt.Errorf("%s", u.msg)
				return
			}
			panic(r)
		}
	}()
	return c.eval(e), nil
}

func (c *CEnv) evalBool(e *Expr) *Term {
	v := c.eval(e)
	if v.T == nil || v.T.S != SBool {
		c.err("boolean expected: %s", e.Src)
	}
	return v.T
}

func (c *CEnv) lookup(name string) *CVal {
	if v, ok := c.vars[name]; ok {
		return v
	}
	if c.fr != nil {
		if sv, ok := c.fr.names[name]; ok {
			if val, ok := c.fr.vals[sv]; ok && val.Tup == nil {
				return &CVal{T: c.ex.termOf(val), Typ: sv.Type()}
			}
		}
		// address-taken local: name -> *cell, read it in the current state
		if sv, ok := c.fr.names["&"+name]; ok {
			if val, ok := c.fr.vals[sv]; ok {
				pt := sv.Type().Underlying().(*types.Pointer)
				if isStruct(pt.Elem()) {
					return &CVal{T: val.T, Typ: sv.Type()}
				}
				l := c.ex.locOf(val, sv.Type())
				return &CVal{T: c.ex.readLoc(c.st, l), Typ: pt.Elem()}
			}
		}
	}
	return nil
}

func (c *CEnv) eval(e *Expr) *CVal {
	ex := c.ex
	V := ex.V
	switch e.Kind {
	case "int":
		bi, ok := new(big.Int).SetString(e.Name, 10)
		if !ok {
			c.err("bad int %s", e.Name)
		}
		return &CVal{T: BigIntLit(bi)}
	case "real":
		r, ok := new(big.Rat).SetString(e.Name)
		if !ok {
			c.err("bad real %s", e.Name)
		}
		return &CVal{T: RealLit(r)}
	case "bool":
		return &CVal{T: BoolLit(e.Name == "true")}
	case "nil":
		return &CVal{Nil: true}
	case "ident":
		if v := c.lookup(e.Name); v != nil {
			return v
		}
		switch e.Name {
		case "alloc":
			return &CVal{T: c.st.alloc}
		case "PI":
			return &CVal{T: App("pi", SReal)}
		case "SQRTPI":
			return &CVal{T: App("sqrtpi", SReal)}
		case "PINF":
			return &CVal{T: App("pinf", SReal)}
		case "NINF":
			return &CVal{T: App("ninf", SReal)}
		}
		if sp, ok := V.cf.Specs[e.Name]; ok && len(sp.Params) == 0 {
			return c.callSpec(sp, nil)
		}
		// global variable of the package
		if obj := c.pkg.Scope().Lookup(e.Name); obj != nil {
			if gv, ok := obj.(*types.Var); ok {
				comp := "G:" + V.qual(c.pkg) + "." + gv.Name()
				if isStruct(gv.Type()) {
					return &CVal{T: App("gref:"+comp, SInt), Typ: types.NewPointer(gv.Type())}
				}
				return &CVal{T: ex.heapGet(c.st, comp, V.sortOf(gv.Type())), Typ: gv.Type()}
			}
		}
		c.err("unknown identifier %q", e.Name)
	case "unop":
		a := c.eval(e.Args[0])
		if e.Name == "!" {
			return &CVal{T: Not(a.T)}
		}
		return &CVal{T: Neg(a.T)}
	case "binop":
		return c.binop(e)
	case "field":
		b := c.eval(e.Args[0])
		return c.field(b, e.Name, e)
	case "index":
		b := c.eval(e.Args[0])
		i := c.eval(e.Args[1])
		return c.index(b, i, e)
	case "old":
		if c.old == nil {
			c.err("old() not available here")
		}
		return c.with(c.old).eval(e.Args[0])
	case "forall", "exists":
		n := c
		var vars []*Term
		for _, qv := range e.Vars {
			s := logicSort(qv.Sort)
			var typ types.Type
			if s == nil {
				typ = c.resolveType(qv.Sort)
				s = V.sortOf(typ)
			}
			ex.counters["qvar"]++
			t := Const(fmt.Sprintf("%s?%d", qv.Name, ex.counters["qvar"]), s)
			vars = append(vars, t)
			n = n.bind(qv.Name, &CVal{T: t, Typ: typ})
		}
		body := n.evalBool(e.Args[0])
		if e.Kind == "forall" {
			return &CVal{T: Forall(vars, body)}
		}
		return &CVal{T: Exists(vars, body)}
	case "assert":
		b := c.eval(e.Args[0])
		typ := c.resolveType(e.Type)
		if b.T.S != SIface {
			c.err("type assertion on non-interface: %s", e.Src)
		}
		boxTypes[V.typeName(typ)] = typ
		return &CVal{T: Unbox(V.typeName(typ), V.sortOf(typ), b.T), Typ: typ}
	case "is":
		b := c.eval(e.Args[0])
		typ := c.resolveType(e.Type)
		boxTypes[V.typeName(typ)] = typ
		return &CVal{T: IsBox(V.typeName(typ), b.T)}
	case "call":
		return c.call(e)
	}
	c.err("cannot evaluate %s (%s)", e.Kind, e.Src)
	return nil
}

func (c *CEnv) nilFor(other *CVal) *Term {
	return c.ex.V.zeroSort(other.T.S)
}

func (c *CEnv) binop(e *Expr) *CVal {
	op := e.Name
	switch op {
	case "&&":
		return &CVal{T: And(c.evalBool(e.Args[0]), c.evalBool(e.Args[1]))}
	case "||":
		return &CVal{T: Or(c.evalBool(e.Args[0]), c.evalBool(e.Args[1]))}
	case "==>":
		return &CVal{T: Implies(c.evalBool(e.Args[0]), c.evalBool(e.Args[1]))}
	case "<==>":
		return &CVal{T: Eq(c.evalBool(e.Args[0]), c.evalBool(e.Args[1]))}
	}
	a := c.eval(e.Args[0])
	b := c.eval(e.Args[1])
	if a.Nil && b.Nil {
		return &CVal{T: BoolLit(op == "==")}
	}
	if a.Nil {
		a = &CVal{T: c.nilFor(b)}
	}
	if b.Nil {
		b = &CVal{T: c.nilFor(a)}
	}
	if a.T == nil || b.T == nil {
		c.err("bad operands in %s", e.Src)
	}
	switch op {
	case "==":
		return &CVal{T: c.eq(a.T, b.T, e)}
	case "!=":
		return &CVal{T: Not(c.eq(a.T, b.T, e))}
	case "<":
		return &CVal{T: Lt(a.T, b.T)}
	case "<=":
		return &CVal{T: Le(a.T, b.T)}
	case ">":
		return &CVal{T: Gt(a.T, b.T)}
	case ">=":
		return &CVal{T: Ge(a.T, b.T)}
	case "+":
		return &CVal{T: Add(a.T, b.T)}
	case "-":
		return &CVal{T: Sub(a.T, b.T)}
	case "*":
		return &CVal{T: Mul(a.T, b.T)}
	case "/":
		if a.T.S == SInt && b.T.S == SInt {
			return &CVal{T: IDivTrunc(a.T, b.T)}
		}
		return &CVal{T: RDiv(a.T, b.T)}
	case "%":
		return &CVal{T: IRemTrunc(a.T, b.T)}
	}
	c.err("unknown operator %s", op)
	return nil
}

func (c *CEnv) eq(a, b *Term, e *Expr) *Term {
	if a.S != b.S && !(a.S == SInt && b.S == SReal) && !(a.S == SReal && b.S == SInt) {
		c.err("sort mismatch in equality %s: %s vs %s", e.Src, a.S.Name, b.S.Name)
	}
	return Eq(a, b)
}

func (c *CEnv) field(b *CVal, name string, e *Expr) *CVal {
	ex := c.ex
	V := ex.V
	if b.Typ == nil {
		// datatype accessor by raw field name
		if b.T != nil && b.T.S.K == KData {
			return &CVal{T: Acc(name, b.T)}
		}
		c.err("field %s of untyped value in %s", name, e.Src)
	}
	t := b.Typ
	if pt, ok := t.Underlying().(*types.Pointer); ok && isStruct(pt.Elem()) {
		si := V.structOf(pt.Elem())
		rt, idx, ftyp := c.findField(si, b.T, name)
		if idx < 0 {
			c.err("no field %s in %s", name, si.name)
		}
		if isStruct(ftyp) {
			return &CVal{T: rt.T, Typ: types.NewPointer(ftyp)}
		}
		comp, s := V.fieldComp(rt.si, idx)
		return &CVal{T: Select(ex.heapGet(c.st, comp, s), rt.T), Typ: ftyp}
	}
	if isStruct(t) {
		si := V.structOf(t)
		for i := 0; i < si.st.NumFields(); i++ {
			f := si.st.Field(i)
			if f.Name() == name {
				return &CVal{T: Acc("fld:"+si.name+"."+name, b.T), Typ: f.Type()}
			}
		}
		// promoted through embedded struct values
		for i := 0; i < si.st.NumFields(); i++ {
			f := si.st.Field(i)
			if f.Embedded() && isStruct(f.Type()) {
				inner := &CVal{T: Acc("fld:"+si.name+"."+f.Name(), b.T), Typ: f.Type()}
				if r := c.tryField(inner, name, e); r != nil {
					return r
				}
			}
		}
		c.err("no field %s in %s", name, si.name)
	}
	c.err("field access %s on %s", name, t)
	return nil
}

func (c *CEnv) tryField(b *CVal, name string, e *Expr) (r *CVal) {
	defer func() {
		if x := recover(); x != nil {
			if _, ok := x.(cevalErr); ok {
				r = nil
				return
			}
			panic(x)
		}
	}()
	return c.field(b, name, e)
}

// findField resolves name in struct si at ref, following embedded struct values.
// Returns (ref of containing struct or of the nested struct field, field index, field type).
func (c *CEnv) findField(si *structInfo, ref *Term, name string) (*refT, int, types.Type) {
	for i := 0; i < si.st.NumFields(); i++ {
		f := si.st.Field(i)
		if f.Name() == name {
			if isStruct(f.Type()) {
				return &refT{T: Add(ref, IntLit(int64(si.offset[i]))), si: c.ex.V.structOf(f.Type())}, i, f.Type()
			}
			return &refT{T: ref, si: si}, i, f.Type()
		}
	}
	for i := 0; i < si.st.NumFields(); i++ {
		f := si.st.Field(i)
		if f.Embedded() && isStruct(f.Type()) {
			r, idx, ft := c.findField(c.ex.V.structOf(f.Type()), Add(ref, IntLit(int64(si.offset[i]))), name)
			if idx >= 0 {
				return r, idx, ft
			}
		}
	}
	return nil, -1, nil
}

type refT struct {
	T  *Term
	si *structInfo
}

func (c *CEnv) index(b, i *CVal, e *Expr) *CVal {
	ex := c.ex
	V := ex.V
	if b.Typ != nil {
		switch t := b.Typ.Underlying().(type) {
		case *types.Slice:
			comp, s := V.elemComp(t.Elem())
			h := ex.heapGet(c.st, comp, s)
			return &CVal{T: Select(Select(h, Acc("sbase", b.T)), At(Acc("soff", b.T), i.T)), Typ: t.Elem()}
		case *types.Map:
			_, _, vc, vs := V.mapComps(t)
			return &CVal{T: Select(Select(ex.heapGet(c.st, vc, vs), b.T), i.T), Typ: t.Elem()}
		case *types.Array:
			return &CVal{T: Select(b.T, i.T), Typ: t.Elem()}
		}
	}
	if b.T != nil && b.T.S.K == KArr {
		return &CVal{T: Select(b.T, i.T)}
	}
	c.err("cannot index %s", e.Src)
	return nil
}

func (c *CEnv) callSpec(sp *SpecFn, args []*CVal) *CVal {
	if c.depth > 60 {
		c.err("spec recursion too deep in %s", sp.Name)
	}
	if len(args) != len(sp.Params) {
		c.err("spec %s: %d args, want %d", sp.Name, len(args), len(sp.Params))
	}
	n := *c
	n.depth = c.depth + 1
	n.vars = map[string]*CVal{}
	// keep outer bindings of quantified variables out: specs are closed
	spkg := c.pkg
	if pp := c.ex.V.ppkgs[sp.Pkg]; pp != nil {
		spkg = pp.Types
	}
	n.pkg = spkg
	for k, p := range sp.Params {
		a := args[k]
		if ls := logicSort(p.Sort); ls != nil {
			if a.Nil {
				a = &CVal{T: c.ex.V.zeroSort(ls)}
			}
			t := a.T
			if ls == SReal && t.S == SInt {
				t = ToReal(t)
			}
			if t.S != ls {
				c.err("spec %s arg %s: sort %s, want %s", sp.Name, p.Name, t.S.Name, ls.Name)
			}
			n.vars[p.Name] = &CVal{T: t}
		} else {
			typ := n.resolveType(p.Sort)
			if a.Nil {
				a = &CVal{T: c.ex.V.zeroOf(typ)}
			}
			if _, isIface := typ.Underlying().(*types.Interface); isIface && a.T.S != SIface && a.Typ != nil {
				// implicit conversion of a concrete value to the interface type (as Go does at call sites)
				tn := c.ex.V.typeName(a.Typ)
				boxTypes[tn] = a.Typ
				a = &CVal{T: Box(tn, a.T), Typ: typ}
			}
			if a.T.S != c.ex.V.sortOf(typ) {
				c.err("spec %s arg %s: sort %s, want %s", sp.Name, p.Name, a.T.S.Name, c.ex.V.sortOf(typ).Name)
			}
			n.vars[p.Name] = &CVal{T: a.T, Typ: typ}
		}
	}
	n.fr = nil
	r := n.eval(sp.Body)
	if ls := logicSort(sp.Result); ls != nil {
		if ls == SReal && r.T.S == SInt {
			r = &CVal{T: ToReal(r.T)}
		}
		if r.T.S != ls {
			c.err("spec %s result sort %s, want %s", sp.Name, r.T.S.Name, ls.Name)
		}
		return &CVal{T: r.T}
	}
	typ := n.resolveType(sp.Result)
	return &CVal{T: r.T, Typ: typ}
}

func (c *CEnv) call(e *Expr) *CVal {
	ex := c.ex
	V := ex.V
	name := e.Name
	if sp, ok := V.cf.Specs[name]; ok {
		var args []*CVal
		for _, a := range e.Args {
			args = append(args, c.eval(a))
		}
		return c.callSpec(sp, args)
	}
	if ar, ok := mathUF[name]; ok {
		if len(e.Args) != ar {
			c.err("%s expects %d args", name, ar)
		}
		var args []*Term
		for _, a := range e.Args {
			args = append(args, ToReal(c.eval(a).T))
		}
		if name == "pow" {
			return &CVal{T: PowTerm(args[0], args[1])}
		}
		return &CVal{T: App(name, SReal, args...)}
	}
	arg := func(k int) *CVal {
		if k >= len(e.Args) {
			c.err("%s: missing argument %d", name, k)
		}
		return c.eval(e.Args[k])
	}
	switch name {
	case "len":
		a := arg(0)
		if a.T.S == SSlice {
			return &CVal{T: Acc("slen", a.T)}
		}
		c.err("len of %s", e.Src)
	case "cap":
		return &CVal{T: Acc("scap", arg(0).T)}
	case "base":
		a := arg(0)
		if a.T.S == SSlice {
			return &CVal{T: Acc("sbase", a.T)}
		}
		if a.T.S == SPtr {
			return &CVal{T: Acc("pbase", a.T)}
		}
		c.err("base of %s", e.Src)
	case "off":
		a := arg(0)
		if a.T.S == SSlice {
			return &CVal{T: Acc("soff", a.T)}
		}
		if a.T.S == SPtr {
			return &CVal{T: Acc("pidx", a.T)}
		}
		c.err("off of %s", e.Src)
	case "has":
		m := arg(0)
		k := arg(1)
		mt, ok := m.Typ.Underlying().(*types.Map)
		if !ok {
			c.err("has on non-map")
		}
		hc, hs, _, _ := V.mapComps(mt)
		return &CVal{T: Select(Select(ex.heapGet(c.st, hc, hs), m.T), k.T)}
	case "keys":
		// keys(m): the membership array of map m
		m := arg(0)
		mt, ok := m.Typ.Underlying().(*types.Map)
		if !ok {
			c.err("keys on non-map")
		}
		hc, hs, _, _ := V.mapComps(mt)
		return &CVal{T: Select(ex.heapGet(c.st, hc, hs), m.T)}
	case "deref":
		p := arg(0)
		if p.Typ == nil {
			c.err("deref of untyped value")
		}
		pt, ok := p.Typ.Underlying().(*types.Pointer)
		if !ok {
			c.err("deref of non-pointer")
		}
		if isStruct(pt.Elem()) {
			return &CVal{T: ex.loadStruct(c.st, V.structOf(pt.Elem()), p.T), Typ: pt.Elem()}
		}
		comp, s := V.elemComp(pt.Elem())
		return &CVal{T: Select(Select(ex.heapGet(c.st, comp, s), Acc("pbase", p.T)), Acc("pidx", p.T)), Typ: pt.Elem()}
	case "elems":
		// elems(s): the storage row (Array Int T) behind slice s
		a := arg(0)
		st, ok := a.Typ.Underlying().(*types.Slice)
		if !ok {
			c.err("elems of non-slice")
		}
		comp, s := V.elemComp(st.Elem())
		return &CVal{T: Select(ex.heapGet(c.st, comp, s), Acc("sbase", a.T))}
	case "row":
		// row(T, base): storage row of element type T at base
		typ := c.resolveType(typeArg(e.Args[0]))
		comp, s := V.elemComp(typ)
		return &CVal{T: Select(ex.heapGet(c.st, comp, s), arg(1).T)}
	case "fresh":
		a := arg(0)
		if c.old == nil {
			c.err("fresh() needs an entry state")
		}
		var r *Term
		switch a.T.S {
		case SInt:
			r = a.T
		case SSlice:
			r = Acc("sbase", a.T)
		case SPtr:
			r = Acc("pbase", a.T)
		default:
			c.err("fresh of %s", a.T.S.Name)
		}
		return &CVal{T: Ge(r, c.old.alloc)}
	case "allocated":
		a := arg(0)
		var r *Term
		switch a.T.S {
		case SInt:
			r = a.T
		case SSlice:
			r = Acc("sbase", a.T)
		case SPtr:
			r = Acc("pbase", a.T)
		}
		return &CVal{T: And(Lt(IntLit(0), r), Lt(r, c.st.alloc))}
	case "real":
		return &CVal{T: ToReal(arg(0).T)}
	case "trunc":
		// Go's float -> integer conversion (same uninterpreted symbol the executor uses for ssa.Convert)
		return &CVal{T: App("trunc", SInt, arg(0).T)}
	case "abs":
		a := arg(0).T
		zero := IntLit(0)
		if a.S == SReal {
			zero = RealOfInt(0)
		}
		return &CVal{T: Ite(Ge(a, zero), a, Neg(a))}
	case "min", "max":
		a, b := arg(0).T, arg(1).T
		if name == "min" {
			return &CVal{T: Ite(Le(a, b), a, b)}
		}
		return &CVal{T: Ite(Ge(a, b), a, b)}
	case "ite":
		cnd := c.evalBool(e.Args[0])
		a, b := arg(1), arg(2)
		if a.Nil {
			a = &CVal{T: c.nilFor(b), Typ: b.Typ}
		}
		if b.Nil {
			b = &CVal{T: c.nilFor(a), Typ: a.Typ}
		}
		at, bt := a.T, b.T
		if at.S != bt.S {
			at, bt = ToReal(at), ToReal(bt)
		}
		return &CVal{T: Ite(cnd, at, bt), Typ: a.Typ}
	case "unchanged":
		// unchanged(Comp): heap component equal to entry state
		if c.old == nil {
			c.err("unchanged() needs an entry state")
		}
		var cs []*Term
		for _, a := range e.Args {
			for _, comp := range ex.compsOfSpec(typeArg(a), c) {
				s := ex.allComps[comp]
				if s == nil {
					continue
				}
				cs = append(cs, Eq(ex.heapGet(c.st, comp, s), ex.heapGet(c.old, comp, s)))
			}
		}
		return &CVal{T: And(cs...)}
	case "call", "call0", "call1", "call2":
		f := arg(0)
		var args []*Val
		for _, a := range e.Args[1:] {
			args = append(args, &Val{T: c.eval(a).T})
		}
		rv := ex.callFuncValue(f.T, f.Typ, args, c.st.clone(), True, true)
		if rv == nil {
			c.err("call(): no result")
		}
		if rv.Tup != nil {
			k := 0
			if name != "call" {
				k = int(name[4] - '0')
			}
			return &CVal{T: rv.Tup[k].T}
		}
		return &CVal{T: rv.T}
	case "visited":
		// visited(m, k): key k has been produced by the (latest) range loop over map m
		m := arg(0)
		k := arg(1)
		for i := len(ex.rangeIters) - 1; i >= 0; i-- {
			ri := ex.rangeIters[i]
			if ri.m == m.T {
				comp, cs := V.rangeComp(ri.mt)
				return &CVal{T: Select(Select(ex.heapGet(c.st, comp, cs), ri.it), k.T)}
			}
		}
		c.err("visited(): no range loop over this map")
	case "heap":
		// heap(Comp): the current value of a heap component (to make ghost functions state dependent)
		comps := ex.compsOfSpec(typeArg(e.Args[0]), c)
		if len(comps) != 1 {
			c.err("heap(): component spec must denote exactly one component")
		}
		return &CVal{T: ex.heapGet(c.st, comps[0], ex.allComps[comps[0]])}
	case "slice":
		return &CVal{T: MkSlice(arg(0).T, arg(1).T, arg(2).T, arg(3).T)}
	case "ptr":
		return &CVal{T: MkPtr(arg(0).T, arg(1).T)}
	case "box":
		typ := c.resolveType(typeArg(e.Args[0]))
		return &CVal{T: Box(V.typeName(typ), arg(1).T), Typ: nil}
	case "zero":
		typ := c.resolveType(typeArg(e.Args[0]))
		return &CVal{T: V.zeroOf(typ), Typ: typ}
	case "as":
		// as(T, e): give a logic value a Go type (for field access)
		typ := c.resolveType(typeArg(e.Args[0]))
		a := arg(1)
		if a.T.S == SIface && V.sortOf(typ) != SIface {
			return &CVal{T: Unbox(V.typeName(typ), V.sortOf(typ), a.T), Typ: typ}
		}
		return &CVal{T: a.T, Typ: typ}
	case "isa":
		// isa(T, e): e has dynamic type T (trivially true for statically typed non-interface values)
		typ := c.resolveType(typeArg(e.Args[0]))
		a := arg(1)
		if a.T.S == SIface && V.sortOf(typ) != SIface {
			return &CVal{T: IsBox(V.typeName(typ), a.T)}
		}
		return &CVal{T: True}
	case "uf":
		// uf(name, sort, args...)
		nm := typeArg(e.Args[0])
		s := logicSort(typeArg(e.Args[1]))
		if s == nil {
			c.err("uf: bad sort")
		}
		var args []*Term
		for _, a := range e.Args[2:] {
			args = append(args, c.eval(a).T)
		}
		return &CVal{T: App("uf:"+nm, s, args...)}
	}
	c.err("unknown function %s in %s", name, e.Src)
	return nil
}

// typeArg reconstructs the source text of an expression used as a type / name argument.
func typeArg(e *Expr) string {
	switch e.Kind {
	case "ident":
		return e.Name
	case "unop":
		return e.Name + typeArg(e.Args[0])
	case "field":
		return typeArg(e.Args[0]) + "." + e.Name
	case "binop":
		return typeArg(e.Args[0]) + e.Name + typeArg(e.Args[1])
	case "index":
		return typeArg(e.Args[0]) + "[" + typeArg(e.Args[1]) + "]"
	}
	return e.Src
}
