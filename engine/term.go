package main

// Term language, sorts, hash-consing, simplifier and SMT-LIB printer.

import (
	"fmt"
	"math/big"
	"sort"
	"strconv"
	"strings"
	"sync"
)

var termMu sync.Mutex

type SortKind int

const (
	KBool SortKind = iota
	KInt
	KReal
	KData
	KArr
)

type Sort struct {
	K    SortKind
	Name string
	A, B *Sort // array index / element
}

var (
	SBool = &Sort{K: KBool, Name: "Bool"}
	SInt  = &Sort{K: KInt, Name: "Int"}
	SReal = &Sort{K: KReal, Name: "Real"}
)

var sortTab = map[string]*Sort{"Bool": SBool, "Int": SInt, "Real": SReal}

func SArr(a, b *Sort) *Sort {
	n := "(Array " + a.Name + " " + b.Name + ")"
	if s, ok := sortTab[n]; ok {
		return s
	}
	s := &Sort{K: KArr, Name: n, A: a, B: b}
	sortTab[n] = s
	return s
}

// Datatype declarations (single or multi constructor).
type Ctor struct {
	Name   string
	Fields []string
	Sorts  []*Sort
}
type DataDecl struct {
	S     *Sort
	Ctors []*Ctor
	Open  bool // constructors are collected lazily (Iface)
}

var dataDecls = map[string]*DataDecl{}
var dataOrder []string

func SData(name string) *Sort {
	if s, ok := sortTab[name]; ok {
		return s
	}
	s := &Sort{K: KData, Name: name}
	sortTab[name] = s
	return s
}

func DeclareData(name string, ctors ...*Ctor) *DataDecl {
	if d, ok := dataDecls[name]; ok {
		return d
	}
	d := &DataDecl{S: SData(name), Ctors: ctors}
	dataDecls[name] = d
	dataOrder = append(dataOrder, name)
	return d
}

var (
	SSlice, SPtr, SIface *Sort
	ifaceDecl            *DataDecl
)

func init() {
	SSlice = DeclareData("Slice", &Ctor{"mk-slice", []string{"sbase", "soff", "slen", "scap"}, []*Sort{SInt, SInt, SInt, SInt}}).S
	SPtr = DeclareData("Ptr", &Ctor{"mk-ptr", []string{"pbase", "pidx"}, []*Sort{SInt, SInt}}).S
	ifaceDecl = DeclareData("Iface", &Ctor{"nil-iface", nil, nil}, &Ctor{"box-other", []string{"otag", "oid"}, []*Sort{SInt, SInt}})
	ifaceDecl.Open = true
	SIface = ifaceDecl.S
}

// ---------------------------------------------------------------------------

type Term struct {
	Op   string // see constructors
	Args []*Term
	S    *Sort
	id   int
	h    uint64 // structural hash: independent of creation order (ids depend on goroutine scheduling)
	// binder info for quantifiers
	Vars []*Term
}

var termTab = make(map[string]*Term, 1<<18)
var termCount int

func mk(op string, s *Sort, args ...*Term) *Term {
	buf := make([]byte, 0, len(op)+len(s.Name)+2+12*len(args))
	buf = append(buf, op...)
	buf = append(buf, '|')
	buf = append(buf, s.Name...)
	for _, a := range args {
		buf = append(buf, ',')
		buf = strconv.AppendInt(buf, int64(a.id), 36)
	}
	k := string(buf)
	termMu.Lock()
	defer termMu.Unlock()
	if t, ok := termTab[k]; ok {
		return t
	}
	termCount++
	h := uint64(14695981039346656037)
	mix := func(b byte) { h = (h ^ uint64(b)) * 1099511628211 }
	for i := 0; i < len(op); i++ {
		mix(op[i])
	}
	mix('|')
	for i := 0; i < len(s.Name); i++ {
		mix(s.Name[i])
	}
	for _, a := range args {
		mix(',')
		x := a.h
		for i := 0; i < 8; i++ {
			mix(byte(x))
			x >>= 8
		}
	}
	t := &Term{Op: op, Args: args, S: s, id: termCount, h: h}
	termTab[k] = t
	return t
}

// termLess is a total order on terms that does not depend on the order in which they were created.
func termLess(a, b *Term) bool {
	if a.h != b.h {
		return a.h < b.h
	}
	return a.id < b.id
}

// leaves
func Const(name string, s *Sort) *Term { return mk("c:"+name, s) }
func IntLit(v int64) *Term              { return mk(fmt.Sprintf("i:%d", v), SInt) }
func BigIntLit(v *big.Int) *Term        { return mk("i:"+v.String(), SInt) }
func RealLit(r *big.Rat) *Term          { return mk("r:"+r.RatString(), SReal) }
func RealOfInt(v int64) *Term           { return RealLit(new(big.Rat).SetInt64(v)) }
func BoolLit(b bool) *Term {
	if b {
		return mk("true", SBool)
	}
	return mk("false", SBool)
}

var True, False *Term

func init() { True = BoolLit(true); False = BoolLit(false) }

var freshCtr = map[string]int{}

func Fresh(prefix string, s *Sort) *Term {
	termMu.Lock()
	freshCtr[prefix]++
	n := freshCtr[prefix]
	termMu.Unlock()
	return Const(fmt.Sprintf("%s!%d", prefix, n), s)
}

func (t *Term) IsConst() bool  { return strings.HasPrefix(t.Op, "c:") }
func (t *Term) ConstName() string { return t.Op[2:] }
func (t *Term) IsIntLit() bool { return strings.HasPrefix(t.Op, "i:") }
func (t *Term) IsRealLit() bool { return strings.HasPrefix(t.Op, "r:") }
func (t *Term) IntVal() *big.Int {
	v, _ := new(big.Int).SetString(t.Op[2:], 10)
	return v
}
func (t *Term) RatVal() *big.Rat {
	v, _ := new(big.Rat).SetString(t.Op[2:])
	return v
}

// App: application of a named (uninterpreted or prelude-defined) function.
func App(name string, s *Sort, args ...*Term) *Term { return mk("f:"+name, s, args...) }

func Not(a *Term) *Term {
	if a == True {
		return False
	}
	if a == False {
		return True
	}
	if a.Op == "not" {
		return a.Args[0]
	}
	return mk("not", SBool, a)
}

func And(as ...*Term) *Term {
	var out []*Term
	seen := map[int]bool{}
	for _, a := range as {
		if a == True {
			continue
		}
		if a == False {
			return False
		}
		if a.Op == "and" {
			for _, b := range a.Args {
				if !seen[b.id] {
					seen[b.id] = true
					out = append(out, b)
				}
			}
			continue
		}
		if !seen[a.id] {
			seen[a.id] = true
			out = append(out, a)
		}
	}
	if len(out) == 0 {
		return True
	}
	if len(out) == 1 {
		return out[0]
	}
	return mk("and", SBool, out...)
}

func Or(as ...*Term) *Term {
	var out []*Term
	seen := map[int]bool{}
	for _, a := range as {
		if a == False {
			continue
		}
		if a == True {
			return True
		}
		if a.Op == "or" {
			for _, b := range a.Args {
				if !seen[b.id] {
					seen[b.id] = true
					out = append(out, b)
				}
			}
			continue
		}
		if !seen[a.id] {
			seen[a.id] = true
			out = append(out, a)
		}
	}
	if len(out) == 0 {
		return False
	}
	if len(out) == 1 {
		return out[0]
	}
	return mk("or", SBool, out...)
}

func Implies(a, b *Term) *Term {
	if a == True {
		return b
	}
	if a == False || b == True {
		return True
	}
	if b == False {
		return Not(a)
	}
	return mk("=>", SBool, a, b)
}

func Ite(c, a, b *Term) *Term {
	if c == True {
		return a
	}
	if c == False {
		return b
	}
	if a == b {
		return a
	}
	if a.S != b.S {
		panic(fmt.Sprintf("ite sort mismatch %s vs %s", a.S.Name, b.S.Name))
	}
	if a.S == SBool {
		if a == True && b == False {
			return c
		}
		if a == False && b == True {
			return Not(c)
		}
	}
	return mk("ite", a.S, c, a, b)
}

func Eq(a, b *Term) *Term {
	if a == b {
		return True
	}
	if a.S != b.S {
		// int/real coercion
		if a.S == SInt && b.S == SReal {
			a = ToReal(a)
		} else if a.S == SReal && b.S == SInt {
			b = ToReal(b)
		} else {
			panic(fmt.Sprintf("eq sort mismatch %s vs %s (%s ; %s)", a.S.Name, b.S.Name, a, b))
		}
	}
	if a.IsIntLit() && b.IsIntLit() {
		return BoolLit(a.IntVal().Cmp(b.IntVal()) == 0)
	}
	if a.IsRealLit() && b.IsRealLit() {
		return BoolLit(a.RatVal().Cmp(b.RatVal()) == 0)
	}
	if a.S == SBool {
		if b == True {
			return a
		}
		if b == False {
			return Not(a)
		}
		if a == True {
			return b
		}
		if a == False {
			return Not(b)
		}
	}
	// distinct allocation constants
	if isAllocConst(a) && isAllocConst(b) {
		return False
	}
	if termLess(b, a) {
		a, b = b, a
	}
	return mk("=", SBool, a, b)
}

func Neq(a, b *Term) *Term { return Not(Eq(a, b)) }

var allocConsts = map[int]bool{}

func isAllocConst(t *Term) bool { return allocConsts[t.id] }

func ToReal(a *Term) *Term {
	if a.S == SReal {
		return a
	}
	if a.IsIntLit() {
		return RealLit(new(big.Rat).SetInt(a.IntVal()))
	}
	return mk("to_real", SReal, a)
}

func numSort(a, b *Term) (*Term, *Term, *Sort) {
	if a.S == SReal || b.S == SReal {
		return ToReal(a), ToReal(b), SReal
	}
	return a, b, SInt
}

func Add(a, b *Term) *Term {
	a, b, s := numSort(a, b)
	if s == SInt {
		if a.IsIntLit() && b.IsIntLit() {
			return BigIntLit(new(big.Int).Add(a.IntVal(), b.IntVal()))
		}
		if a.IsIntLit() && a.IntVal().Sign() == 0 {
			return b
		}
		if b.IsIntLit() && b.IntVal().Sign() == 0 {
			return a
		}
	} else {
		if a.IsRealLit() && b.IsRealLit() {
			return RealLit(new(big.Rat).Add(a.RatVal(), b.RatVal()))
		}
		if a.IsRealLit() && a.RatVal().Sign() == 0 {
			return b
		}
		if b.IsRealLit() && b.RatVal().Sign() == 0 {
			return a
		}
	}
	return mk("+", s, a, b)
}

func Sub(a, b *Term) *Term {
	a, b, s := numSort(a, b)
	if s == SInt {
		if a.IsIntLit() && b.IsIntLit() {
			return BigIntLit(new(big.Int).Sub(a.IntVal(), b.IntVal()))
		}
		if b.IsIntLit() && b.IntVal().Sign() == 0 {
			return a
		}
	} else {
		if a.IsRealLit() && b.IsRealLit() {
			return RealLit(new(big.Rat).Sub(a.RatVal(), b.RatVal()))
		}
		if b.IsRealLit() && b.RatVal().Sign() == 0 {
			return a
		}
	}
	if a == b {
		if s == SInt {
			return IntLit(0)
		}
		return RealOfInt(0)
	}
	return mk("-", s, a, b)
}

func Neg(a *Term) *Term {
	if a.S == SInt {
		return Sub(IntLit(0), a)
	}
	return Sub(RealOfInt(0), a)
}

// acMulMode: real products of non-literal factors become applications of an uninterpreted,
// syntactically AC-normalised function prodN (used for the chain-rule combinators, where only
// congruence between products matters; keeps those VCs in EUF + linear arithmetic).
var acMulMode bool

// Prod builds the AC-normal uninterpreted product of the given factors.
func Prod(fs []*Term) *Term {
	var flat []*Term
	coef := big.NewRat(1, 1)
	for _, f := range fs {
		if f.IsRealLit() {
			coef.Mul(coef, f.RatVal())
			continue
		}
		flat = append(flat, prodFactors(f)...)
	}
	sort.Slice(flat, func(i, j int) bool { return termLess(flat[i], flat[j]) })
	var t *Term
	switch len(flat) {
	case 0:
		return RealLit(coef)
	case 1:
		t = flat[0]
	default:
		t = App(fmt.Sprintf("prod%d", len(flat)), SReal, flat...)
	}
	if coef.Cmp(big.NewRat(1, 1)) != 0 {
		return mk("*", SReal, RealLit(coef), t)
	}
	return t
}

func prodFactors(t *Term) []*Term {
	if strings.HasPrefix(t.Op, "f:prod") {
		return t.Args
	}
	return []*Term{t}
}

func Mul(a, b *Term) *Term {
	a, b, s := numSort(a, b)
	if acMulMode && s == SReal && !a.IsRealLit() && !b.IsRealLit() {
		// binary uninterpreted product (commutativity is a prelude axiom); no syntactic
		// AC-normal form: that is not stable under equalities the solver discovers
		return App("rmul", SReal, a, b)
	}
	if s == SInt {
		if a.IsIntLit() && b.IsIntLit() {
			return BigIntLit(new(big.Int).Mul(a.IntVal(), b.IntVal()))
		}
		if a.IsIntLit() && a.IntVal().Cmp(big.NewInt(1)) == 0 {
			return b
		}
		if b.IsIntLit() && b.IntVal().Cmp(big.NewInt(1)) == 0 {
			return a
		}
	} else {
		if a.IsRealLit() && b.IsRealLit() {
			return RealLit(new(big.Rat).Mul(a.RatVal(), b.RatVal()))
		}
		one := big.NewRat(1, 1)
		if a.IsRealLit() && a.RatVal().Cmp(one) == 0 {
			return b
		}
		if b.IsRealLit() && b.RatVal().Cmp(one) == 0 {
			return a
		}
	}
	return mk("*", s, a, b)
}

// RDiv: real division (total in SMT; division by zero is an uninterpreted value).
func RDiv(a, b *Term) *Term {
	a, b = ToReal(a), ToReal(b)
	if a.IsRealLit() && b.IsRealLit() && b.RatVal().Sign() != 0 {
		return RealLit(new(big.Rat).Quo(a.RatVal(), b.RatVal()))
	}
	return mk("/", SReal, a, b)
}

// Go integer division / remainder (truncated), expressed with SMT floor div.
func IDivTrunc(a, b *Term) *Term {
	if a.IsIntLit() && b.IsIntLit() && b.IntVal().Sign() != 0 {
		return BigIntLit(new(big.Int).Quo(a.IntVal(), b.IntVal()))
	}
	// trunc(a/b) = ite(a>=0, a div b, -((-a) div b))   [SMT div is euclidean: for a>=0 equals trunc for either sign of b]
	return Ite(Ge(a, IntLit(0)), mk("div", SInt, a, b), Neg(mk("div", SInt, Neg(a), b)))
}
func IRemTrunc(a, b *Term) *Term {
	if a.IsIntLit() && b.IsIntLit() && b.IntVal().Sign() != 0 {
		return BigIntLit(new(big.Int).Rem(a.IntVal(), b.IntVal()))
	}
	return Sub(a, Mul(b, IDivTrunc(a, b)))
}

func cmp(op string, a, b *Term) *Term {
	a, b, s := numSort(a, b)
	if s == SInt && a.IsIntLit() && b.IsIntLit() {
		c := a.IntVal().Cmp(b.IntVal())
		return BoolLit(cmpRes(op, c))
	}
	if s == SReal && a.IsRealLit() && b.IsRealLit() {
		c := a.RatVal().Cmp(b.RatVal())
		return BoolLit(cmpRes(op, c))
	}
	if a == b {
		return BoolLit(op == "<=" || op == ">=")
	}
	return mk(op, SBool, a, b)
}
func cmpRes(op string, c int) bool {
	switch op {
	case "<":
		return c < 0
	case "<=":
		return c <= 0
	case ">":
		return c > 0
	case ">=":
		return c >= 0
	}
	panic(op)
}
func Lt(a, b *Term) *Term { return cmp("<", a, b) }
func Le(a, b *Term) *Term { return cmp("<=", a, b) }
func Gt(a, b *Term) *Term { return cmp(">", a, b) }
func Ge(a, b *Term) *Term { return cmp(">=", a, b) }

// At: element index of a slice with offset off (an uninterpreted wrapper around off + k so that
// quantified facts about slice elements have arithmetic-free E-matching triggers; the prelude
// axiom at(o,k) = o + k gives it its meaning).
var useAtWrapper = false

func At(off, k *Term) *Term {
	if !useAtWrapper || (off.IsIntLit() && k.IsIntLit()) {
		return Add(off, k)
	}
	return App("at", SInt, off, k)
}

func Select(a, i *Term) *Term {
	if a.S.K != KArr {
		panic("select on non-array " + a.S.Name + " " + a.String())
	}
	if i.S != a.S.A {
		panic(fmt.Sprintf("select index sort %s on %s", i.S.Name, a.S.Name))
	}
	cur := a
	for cur.Op == "store" {
		j := cur.Args[1]
		if j == i {
			return cur.Args[2]
		}
		if definitelyDistinct(i, j) {
			cur = cur.Args[0]
			continue
		}
		break
	}
	if cur.Op == "constarr" {
		return cur.Args[0]
	}
	return mk("select", a.S.B, cur, i)
}

func definitelyDistinct(a, b *Term) bool {
	if a == b {
		return false
	}
	if a.IsIntLit() && b.IsIntLit() {
		return a.IntVal().Cmp(b.IntVal()) != 0
	}
	if isAllocConst(a) && isAllocConst(b) {
		return true
	}
	if a.Op == "f:at" && b.Op == "f:at" && a.Args[0] == b.Args[0] {
		return definitelyDistinct(a.Args[1], b.Args[1])
	}
	// x + c1 vs x + c2
	ba, ca := splitAddConst(a)
	bb, cb := splitAddConst(b)
	if ba == bb && ca != cb {
		return true
	}
	return false
}

func splitAddConst(t *Term) (*Term, int64) {
	if t.Op == "+" && t.Args[1].IsIntLit() && t.Args[1].IntVal().IsInt64() {
		return t.Args[0], t.Args[1].IntVal().Int64()
	}
	if t.Op == "-" && t.Args[1].IsIntLit() && t.Args[1].IntVal().IsInt64() {
		return t.Args[0], -t.Args[1].IntVal().Int64()
	}
	return t, 0
}

func Store(a, i, v *Term) *Term {
	if a.S.K != KArr {
		panic("store on non-array")
	}
	if v.S != a.S.B {
		if a.S.B == SReal && v.S == SInt {
			v = ToReal(v)
		} else {
			panic(fmt.Sprintf("store value sort %s into %s", v.S.Name, a.S.Name))
		}
	}
	if i.S != a.S.A {
		panic(fmt.Sprintf("store index sort %s into %s", i.S.Name, a.S.Name))
	}
	if a.Op == "store" && a.Args[1] == i {
		a = a.Args[0]
	}
	return mk("store", a.S, a, i, v)
}

func ConstArr(s *Sort, v *Term) *Term { return mk("constarr", s, v) }

// datatype constructor / accessor / tester
func Ctr(d *DataDecl, c *Ctor, args ...*Term) *Term {
	for k := range args {
		if args[k].S != c.Sorts[k] {
			if c.Sorts[k] == SReal && args[k].S == SInt {
				args[k] = ToReal(args[k])
			} else {
				panic(fmt.Sprintf("ctor %s arg %d sort %s want %s", c.Name, k, args[k].S.Name, c.Sorts[k].Name))
			}
		}
	}
	return mk("C:"+c.Name, d.S, args...)
}

func findCtor(s *Sort, name string) (*DataDecl, *Ctor, int) {
	d := dataDecls[s.Name]
	if d == nil {
		panic("no datatype " + s.Name)
	}
	for _, c := range d.Ctors {
		for k, f := range c.Fields {
			if f == name {
				return d, c, k
			}
		}
	}
	panic("no accessor " + name + " in " + s.Name)
}

func Acc(field string, t *Term) *Term {
	_, c, k := findCtor(t.S, field)
	if t.Op == "C:"+c.Name {
		return t.Args[k]
	}
	if t.Op == "ite" {
		// push accessor into ite of constructors (keeps header reads syntactic)
		if strings.HasPrefix(t.Args[1].Op, "C:") || strings.HasPrefix(t.Args[2].Op, "C:") {
			return Ite(t.Args[0], Acc(field, t.Args[1]), Acc(field, t.Args[2]))
		}
	}
	return mk("A:"+field, c.Sorts[k], t)
}

func Is(ctor string, t *Term) *Term {
	if strings.HasPrefix(t.Op, "C:") {
		return BoolLit(t.Op == "C:"+ctor)
	}
	return mk("is:"+ctor, SBool, t)
}

func MkSlice(base, off, ln, cp *Term) *Term {
	d := dataDecls["Slice"]
	return Ctr(d, d.Ctors[0], base, off, ln, cp)
}
func MkPtr(base, idx *Term) *Term {
	d := dataDecls["Ptr"]
	return Ctr(d, d.Ctors[0], base, idx)
}

var NilSlice, NilPtr, NilIface *Term

func init() {
	NilSlice = MkSlice(IntLit(0), IntLit(0), IntLit(0), IntLit(0))
	NilPtr = MkPtr(IntLit(0), IntLit(0))
	NilIface = mk("C:nil-iface", SIface)
}

// quantifiers
func Forall(vars []*Term, body *Term) *Term {
	if body == True || len(vars) == 0 {
		return body
	}
	t := mk(fmt.Sprintf("forall#%s", varKey(vars)), SBool, body)
	termMu.Lock()
	if t.Vars == nil {
		t.Vars = vars
	}
	termMu.Unlock()
	return t
}
func Exists(vars []*Term, body *Term) *Term {
	if body == False || len(vars) == 0 {
		return body
	}
	t := mk(fmt.Sprintf("exists#%s", varKey(vars)), SBool, body)
	termMu.Lock()
	if t.Vars == nil {
		t.Vars = vars
	}
	termMu.Unlock()
	return t
}
func varKey(vars []*Term) string {
	var s []string
	for _, v := range vars {
		s = append(s, fmt.Sprint(v.id))
	}
	return strings.Join(s, ".")
}

// ---------------------------------------------------------------------------
// substitution

// hasKeyMemo caches, per substitution domain (identified by its key set pointer), which subterms
// mention a key: substitution then only walks that part of the DAG.
type substCtx struct {
	keys map[*Term]bool
	has  map[*Term]bool
}

func (sc *substCtx) mentions(t *Term) bool {
	if r, ok := sc.has[t]; ok {
		return r
	}
	r := sc.keys[t]
	if !r {
		for _, a := range t.Args {
			if sc.mentions(a) {
				r = true
				break
			}
		}
	}
	sc.has[t] = r
	return r
}

// SubstWith substitutes using a reusable context (same key set, many substitutions).
func SubstWith(sc *substCtx, t *Term, m map[*Term]*Term) *Term {
	memo := map[*Term]*Term{}
	var rec func(t *Term) *Term
	rec = func(t *Term) *Term {
		if r, ok := m[t]; ok {
			return r
		}
		if len(t.Args) == 0 || !sc.mentions(t) {
			return t
		}
		if r, ok := memo[t]; ok {
			return r
		}
		args := make([]*Term, len(t.Args))
		for i, a := range t.Args {
			args[i] = rec(a)
		}
		r := rebuild(t, args)
		memo[t] = r
		return r
	}
	return rec(t)
}

func newSubstCtx(vars []*Term) *substCtx {
	sc := &substCtx{keys: map[*Term]bool{}, has: map[*Term]bool{}}
	for _, v := range vars {
		sc.keys[v] = true
	}
	return sc
}

func Subst(t *Term, m map[*Term]*Term) *Term {
	memo := map[*Term]*Term{}
	var rec func(t *Term) *Term
	rec = func(t *Term) *Term {
		if r, ok := m[t]; ok {
			return r
		}
		if len(t.Args) == 0 {
			return t
		}
		if r, ok := memo[t]; ok {
			return r
		}
		args := make([]*Term, len(t.Args))
		ch := false
		for i, a := range t.Args {
			args[i] = rec(a)
			if args[i] != a {
				ch = true
			}
		}
		r := t
		if ch {
			r = rebuild(t, args)
		}
		memo[t] = r
		return r
	}
	return rec(t)
}

func rebuild(t *Term, args []*Term) *Term {
	switch {
	case t.Op == "not":
		return Not(args[0])
	case t.Op == "and":
		return And(args...)
	case t.Op == "or":
		return Or(args...)
	case t.Op == "=>":
		return Implies(args[0], args[1])
	case t.Op == "ite":
		return Ite(args[0], args[1], args[2])
	case t.Op == "=":
		return Eq(args[0], args[1])
	case t.Op == "+":
		return Add(args[0], args[1])
	case t.Op == "-":
		return Sub(args[0], args[1])
	case t.Op == "*":
		return Mul(args[0], args[1])
	case t.Op == "/":
		return RDiv(args[0], args[1])
	case t.Op == "<" || t.Op == "<=" || t.Op == ">" || t.Op == ">=":
		return cmp(t.Op, args[0], args[1])
	case t.Op == "select":
		return Select(args[0], args[1])
	case t.Op == "store":
		return Store(args[0], args[1], args[2])
	case t.Op == "to_real":
		return ToReal(args[0])
	case strings.HasPrefix(t.Op, "A:"):
		return Acc(t.Op[2:], args[0])
	case strings.HasPrefix(t.Op, "is:"):
		return Is(t.Op[3:], args[0])
	case strings.HasPrefix(t.Op, "forall#"):
		return Forall(t.Vars, args[0])
	case strings.HasPrefix(t.Op, "exists#"):
		return Exists(t.Vars, args[0])
	case strings.HasPrefix(t.Op, "f:prod"):
		return Prod(args) // keep the AC-normal form under substitution
	case t.Op == "f:at":
		return At(args[0], args[1])
	}
	return mk(t.Op, t.S, args...)
}

// ---------------------------------------------------------------------------
// printing

// smtSym maps an internal name to a simple SMT-LIB symbol (no quoting: cvc5 1.0 mishandles
// quoted constructor names in testers).
func smtSym(s string) string {
	ok := true
	for _, r := range s {
		if !(r >= 'a' && r <= 'z' || r >= 'A' && r <= 'Z' || r >= '0' && r <= '9' || strings.ContainsRune("_.!-$@", r)) {
			ok = false
		}
	}
	if ok && len(s) > 0 && !(s[0] >= '0' && s[0] <= '9') {
		return s
	}
	var sb strings.Builder
	if len(s) == 0 || (s[0] >= '0' && s[0] <= '9') {
		sb.WriteByte('_')
	}
	for _, r := range s {
		switch {
		case r >= 'a' && r <= 'z' || r >= 'A' && r <= 'Z' || r >= '0' && r <= '9' || strings.ContainsRune("_.!-$@", r):
			sb.WriteRune(r)
		case r == '*':
			sb.WriteString("~p")
		case r == ':':
			sb.WriteString("~c")
		case r == '?':
			sb.WriteString("~q")
		case r == '[':
			sb.WriteString("~l")
		case r == ']':
			sb.WriteString("~r")
		case r == ',':
			sb.WriteString("~m")
		case r == ' ':
			sb.WriteString("~s")
		case r == '(':
			sb.WriteString("~o")
		case r == ')':
			sb.WriteString("~e")
		case r == '#':
			sb.WriteString("~h")
		case r == '/':
			sb.WriteString("~d")
		default:
			fmt.Fprintf(&sb, "~x%x", r)
		}
	}
	return sb.String()
}

// ufSym: uninterpreted function symbols get a prefix (newer z3 reserves sin, tanh, exp, ...).
func ufSym(name string) string { return smtSym("u." + name) }

func ratSMT(r *big.Rat) string {
	neg := r.Sign() < 0
	a := new(big.Rat).Abs(r)
	var s string
	if a.IsInt() {
		s = a.Num().String() + ".0"
	} else {
		s = "(/ " + a.Num().String() + ".0 " + a.Denom().String() + ".0)"
	}
	if neg {
		return "(- " + s + ")"
	}
	return s
}

func (t *Term) String() string {
	p := &printer{names: map[*Term]string{}}
	return p.str(t)
}

type printer struct {
	names map[*Term]string
}

func (p *printer) str(t *Term) string {
	if n, ok := p.names[t]; ok {
		return n
	}
	switch {
	case strings.HasPrefix(t.Op, "c:"):
		return smtSym(t.Op[2:])
	case strings.HasPrefix(t.Op, "i:"):
		v := t.IntVal()
		if v.Sign() < 0 {
			return "(- " + new(big.Int).Neg(v).String() + ")"
		}
		return v.String()
	case strings.HasPrefix(t.Op, "r:"):
		return ratSMT(t.RatVal())
	case t.Op == "true" || t.Op == "false":
		return t.Op
	case strings.HasPrefix(t.Op, "f:"):
		if len(t.Args) == 0 {
			return ufSym(t.Op[2:])
		}
		return p.app(ufSym(t.Op[2:]), t.Args)
	case strings.HasPrefix(t.Op, "C:"):
		if len(t.Args) == 0 {
			if dataDecls[t.S.Name] != nil && len(dataDecls[t.S.Name].Ctors) >= 1 {
				return smtSym(t.Op[2:])
			}
		}
		return p.app(smtSym(t.Op[2:]), t.Args)
	case strings.HasPrefix(t.Op, "A:"):
		return p.app(smtSym(t.Op[2:]), t.Args)
	case strings.HasPrefix(t.Op, "is:"):
		return p.app("(_ is "+smtSym(t.Op[3:])+")", t.Args)
	case t.Op == "constarr":
		return "((as const " + t.S.Name + ") " + p.str(t.Args[0]) + ")"
	case strings.HasPrefix(t.Op, "forall#") || strings.HasPrefix(t.Op, "exists#"):
		q := "forall"
		if t.Op[0] == 'e' {
			q = "exists"
		}
		var vs []string
		for _, v := range t.Vars {
			vs = append(vs, "("+smtSym(v.ConstName())+" "+v.S.Name+")")
		}
		body := p.str(t.Args[0])
		if q == "forall" {
			if pats := triggersFor(t); len(pats) > 0 {
				var ps []string
				for _, mp := range pats {
					var ts []string
					for _, x := range mp {
						ts = append(ts, p.str(x))
					}
					ps = append(ps, ":pattern ("+strings.Join(ts, " ")+")")
				}
				body = "(! " + body + " " + strings.Join(ps, " ") + ")"
			}
		}
		return "(" + q + " (" + strings.Join(vs, " ") + ") " + body + ")"
	case t.Op == "-" && len(t.Args) == 2:
		return p.app("-", t.Args)
	}
	return p.app(t.Op, t.Args)
}

func (p *printer) app(f string, args []*Term) string {
	var sb strings.Builder
	sb.WriteByte('(')
	sb.WriteString(f)
	for _, a := range args {
		sb.WriteByte(' ')
		sb.WriteString(p.str(a))
	}
	sb.WriteByte(')')
	return sb.String()
}

// Script builds a complete SMT-LIB query for a set of assertions.
type Script struct {
	Logic   string
	Asserts []*Term
}

// collect walks terms gathering constants, function symbols, datatypes.
type symInfo struct {
	consts map[string]*Sort
	funcs  map[string]*Term // representative application
	boxes  map[string]*Sort // iface constructors used -> payload sort
	sorts  map[string]*Sort
	bound  map[string]bool
}

func collect(ts []*Term) *symInfo {
	si := &symInfo{consts: map[string]*Sort{}, funcs: map[string]*Term{}, boxes: map[string]*Sort{}, sorts: map[string]*Sort{}, bound: map[string]bool{}}
	seen := map[*Term]bool{}
	var noteSort func(s *Sort)
	noteSort = func(s *Sort) {
		if s.K == KArr {
			noteSort(s.A)
			noteSort(s.B)
		} else if s.K == KData {
			if si.sorts[s.Name] == nil {
				si.sorts[s.Name] = s
				if d := dataDecls[s.Name]; d != nil && !d.Open {
					for _, c := range d.Ctors {
						for _, fs := range c.Sorts {
							noteSort(fs)
						}
					}
				}
			}
		}
	}
	var rec func(t *Term)
	rec = func(t *Term) {
		if seen[t] {
			return
		}
		seen[t] = true
		noteSort(t.S)
		for _, v := range t.Vars {
			si.bound[v.ConstName()] = true
			noteSort(v.S)
		}
		switch {
		case strings.HasPrefix(t.Op, "c:"):
			si.consts[t.Op[2:]] = t.S
		case strings.HasPrefix(t.Op, "f:"):
			si.funcs[t.Op[2:]] = t
		case strings.HasPrefix(t.Op, "C:box:"):
			si.boxes[t.Op[2:]] = t.Args[0].S
			noteSort(t.Args[0].S)
		case strings.HasPrefix(t.Op, "A:unbox:"):
			si.boxes["box:"+t.Op[8:]] = t.S
		case strings.HasPrefix(t.Op, "is:box:"):
			if _, ok := si.boxes[t.Op[3:]]; !ok {
				si.boxes[t.Op[3:]] = nil
			}
		}
		for _, a := range t.Args {
			rec(a)
		}
	}
	for _, t := range ts {
		rec(t)
	}
	return si
}

// boxPayload records payload sorts for iface constructors globally.
var boxPayload = map[string]*Sort{}

func Box(tname string, payload *Term) *Term {
	if s, ok := boxPayload[tname]; ok && s != payload.S {
		panic("box payload sort clash for " + tname)
	}
	boxPayload[tname] = payload.S
	return mk("C:box:"+tname, SIface, payload)
}
func Unbox(tname string, s *Sort, t *Term) *Term {
	boxPayload[tname] = s
	if t.Op == "C:box:"+tname {
		return t.Args[0]
	}
	if t.Op == "ite" {
		return Ite(t.Args[0], Unbox(tname, s, t.Args[1]), Unbox(tname, s, t.Args[2]))
	}
	return mk("A:unbox:"+tname, s, t)
}
func IsBox(tname string, t *Term) *Term {
	if strings.HasPrefix(t.Op, "C:") {
		return BoolLit(t.Op == "C:box:"+tname)
	}
	return mk("is:box:"+tname, SBool, t)
}

func (sc *Script) Render(prelude string, preludeFuncs map[string]bool) string {
	si := collect(sc.Asserts)
	var sb strings.Builder
	logic := sc.Logic
	if logic == "" {
		logic = "ALL"
	}
	sb.WriteString("(set-option :produce-models true)\n")
	sb.WriteString("(set-logic " + logic + ")\n")
	// datatypes in dependency order: declare those used; struct datatypes may nest
	declared := map[string]bool{}
	var declSort func(name string)
	declSort = func(name string) {
		if declared[name] {
			return
		}
		declared[name] = true
		d := dataDecls[name]
		if d == nil {
			sb.WriteString("(declare-sort " + smtSym(name) + " 0)\n")
			return
		}
		ctors := d.Ctors
		if d.Open {
			var bn []string
			for b := range si.boxes {
				bn = append(bn, b)
			}
			sort.Strings(bn)
			for _, b := range bn {
				ps := boxPayload[b[4:]]
				if ps == nil {
					ps = SInt
				}
				ctors = append(ctors, &Ctor{b, []string{"unbox:" + b[4:]}, []*Sort{ps}})
			}
		}
		for _, c := range ctors {
			for _, fs := range c.Sorts {
				depSorts(fs, declSort)
			}
		}
		sb.WriteString("(declare-datatypes ((" + smtSym(name) + " 0)) ((")
		for _, c := range ctors {
			sb.WriteString("(" + smtSym(c.Name))
			for k, f := range c.Fields {
				sb.WriteString(" (" + smtSym(f) + " " + c.Sorts[k].Name + ")")
			}
			sb.WriteString(")")
		}
		sb.WriteString(")))\n")
	}
	var sn []string
	for n := range si.sorts {
		sn = append(sn, n)
	}
	sort.Strings(sn)
	for _, n := range sn {
		declSort(n)
	}
	var cn []string
	for n := range si.consts {
		if !si.bound[n] {
			cn = append(cn, n)
		}
	}
	sort.Strings(cn)
	for _, n := range cn {
		sb.WriteString("(declare-fun " + smtSym(n) + " () " + si.consts[n].Name + ")\n")
	}
	var fn []string
	for n := range si.funcs {
		if !preludeFuncs[n] {
			fn = append(fn, n)
		}
	}
	sort.Strings(fn)
	for _, n := range fn {
		t := si.funcs[n]
		sb.WriteString("(declare-fun " + ufSym(n) + " (")
		for k, a := range t.Args {
			if k > 0 {
				sb.WriteByte(' ')
			}
			sb.WriteString(a.S.Name)
		}
		sb.WriteString(") " + t.S.Name + ")\n")
	}
	sb.WriteString(prelude)
	// shared subterm naming
	refs := map[*Term]int{}
	var count func(t *Term)
	count = func(t *Term) {
		refs[t]++
		if refs[t] > 1 {
			return
		}
		for _, a := range t.Args {
			count(a)
		}
	}
	for _, a := range sc.Asserts {
		count(a)
	}
	p := &printer{names: map[*Term]string{}}
	// define shared non-leaf subterms bottom-up (only those without bound variables)
	hasBound := map[*Term]bool{}
	var hb func(t *Term) bool
	hbSeen := map[*Term]bool{}
	hb = func(t *Term) bool {
		if hbSeen[t] {
			return hasBound[t]
		}
		hbSeen[t] = true
		r := false
		if t.IsConst() && si.bound[t.ConstName()] {
			r = true
		}
		for _, a := range t.Args {
			if hb(a) {
				r = true
			}
		}
		hasBound[t] = r
		return r
	}
	for _, a := range sc.Asserts {
		hb(a)
	}
	done := map[*Term]bool{}
	nameCtr := 0
	var emit func(t *Term)
	emit = func(t *Term) {
		if done[t] {
			return
		}
		done[t] = true
		for _, a := range t.Args {
			emit(a)
		}
		if len(t.Args) > 0 && refs[t] > 1 && !hasBound[t] && t.Op != "constarr" {
			nameCtr++
			n := fmt.Sprintf("$n%d", nameCtr)
			body := p.str(t)
			sb.WriteString("(define-fun " + n + " () " + t.S.Name + " " + body + ")\n")
			p.names[t] = n
		}
	}
	for _, a := range sc.Asserts {
		emit(a)
	}
	for _, a := range sc.Asserts {
		sb.WriteString("(assert " + p.str(a) + ")\n")
	}
	sb.WriteString("(check-sat)\n")
	return sb.String()
}

func depSorts(s *Sort, f func(string)) {
	switch s.K {
	case KArr:
		depSorts(s.A, f)
		depSorts(s.B, f)
	case KData:
		f(s.Name)
	}
}

// triggersFor computes E-matching patterns for a universally quantified term: maximal subterms
// built only from select / at / accessors / uninterpreted applications over the bound variables.
func triggersFor(q *Term) [][]*Term {
	vars := map[*Term]bool{}
	for _, v := range q.Vars {
		vars[v] = true
	}
	hasVar := map[*Term]bool{}
	var hv func(t *Term) bool
	hv = func(t *Term) bool {
		if r, ok := hasVar[t]; ok {
			return r
		}
		r := vars[t]
		for _, a := range t.Args {
			if hv(a) {
				r = true
			}
		}
		hasVar[t] = r
		return r
	}
	okMemo := map[*Term]bool{}
	var patOK func(t *Term) bool
	patOK = func(t *Term) bool {
		if r, ok := okMemo[t]; ok {
			return r
		}
		r := true
		if !hv(t) {
			r = !hasQuantTerm(t)
		} else if vars[t] {
			r = true
		} else {
			switch {
			case t.Op == "select", strings.HasPrefix(t.Op, "f:"), strings.HasPrefix(t.Op, "A:"), strings.HasPrefix(t.Op, "C:"):
				for _, a := range t.Args {
					if !patOK(a) {
						r = false
					}
				}
			default:
				r = false
			}
		}
		okMemo[t] = r
		return r
	}
	var cands []*Term
	seen := map[*Term]bool{}
	var walk func(t *Term, underPat bool, inner map[*Term]bool)
	walk = func(t *Term, underPat bool, inner map[*Term]bool) {
		if seen[t] && len(inner) == 0 {
			return
		}
		if len(inner) == 0 {
			seen[t] = true
		}
		ni := inner
		if len(t.Vars) > 0 && t != q {
			ni = map[*Term]bool{}
			for k := range inner {
				ni[k] = true
			}
			for _, v := range t.Vars {
				ni[v] = true
			}
		}
		isPat := false
		if !vars[t] && hv(t) && patOK(t) && (t.Op == "select" || strings.HasPrefix(t.Op, "f:")) {
			// must not mention variables of inner quantifiers
			m := map[*Term]bool{}
			if len(ni) == 0 || !containsAnyT(t, ni, m) {
				isPat = true
				if !underPat {
					cands = append(cands, t)
				}
			}
		}
		for _, a := range t.Args {
			walk(a, underPat || isPat, ni)
		}
	}
	walk(q.Args[0], false, map[*Term]bool{})
	if len(cands) == 0 {
		return nil
	}
	varsOf := func(t *Term) map[*Term]bool {
		out := map[*Term]bool{}
		var rec func(t *Term)
		rs := map[*Term]bool{}
		rec = func(t *Term) {
			if rs[t] {
				return
			}
			rs[t] = true
			if vars[t] {
				out[t] = true
			}
			for _, a := range t.Args {
				rec(a)
			}
		}
		rec(t)
		return out
	}
	var out [][]*Term
	var partial []*Term
	for _, c := range cands {
		if len(varsOf(c)) == len(vars) {
			if len(out) < 4 {
				out = append(out, []*Term{c})
			}
		} else {
			partial = append(partial, c)
		}
	}
	if len(out) == 0 {
		// greedy multi-pattern
		covered := map[*Term]bool{}
		var mp []*Term
		for len(covered) < len(vars) {
			best := -1
			bestGain := 0
			for i, c := range partial {
				g := 0
				for v := range varsOf(c) {
					if !covered[v] {
						g++
					}
				}
				if g > bestGain {
					bestGain = g
					best = i
				}
			}
			if best < 0 {
				return nil
			}
			mp = append(mp, partial[best])
			for v := range varsOf(partial[best]) {
				covered[v] = true
			}
		}
		out = append(out, mp)
	}
	return out
}

func containsAnyT(t *Term, vars map[*Term]bool, memo map[*Term]bool) bool {
	if v, ok := memo[t]; ok {
		return v
	}
	r := vars[t]
	if !r {
		for _, a := range t.Args {
			if containsAnyT(a, vars, memo) {
				r = true
				break
			}
		}
	}
	memo[t] = r
	return r
}

func hasQuantTerm(t *Term) bool {
	if strings.HasPrefix(t.Op, "forall#") || strings.HasPrefix(t.Op, "exists#") {
		return true
	}
	for _, a := range t.Args {
		if hasQuantTerm(a) {
			return true
		}
	}
	return false
}

// PowTerm: pow with small literal exponents is expanded to products / quotients / sqrt.
func PowTerm(x, y *Term) *Term {
	if y.IsRealLit() {
		r := y.RatVal()
		if r.IsInt() {
			n := r.Num().Int64()
			if n >= 0 && n <= 4 {
				if n == 0 {
					return RealOfInt(1)
				}
				t := x
				for i := int64(1); i < n; i++ {
					t = Mul(t, x)
				}
				return t
			}
			if n < 0 && n >= -4 {
				return RDiv(RealOfInt(1), PowTerm(x, RealLit(new(big.Rat).Neg(r))))
			}
		}
		half := big.NewRat(1, 2)
		switch {
		case r.Cmp(half) == 0:
			return App("sqrt", SReal, x)
		case r.Cmp(big.NewRat(-1, 2)) == 0:
			return RDiv(RealOfInt(1), App("sqrt", SReal, x))
		case r.Cmp(big.NewRat(3, 2)) == 0:
			return Mul(x, App("sqrt", SReal, x))
		case r.Cmp(big.NewRat(-3, 2)) == 0:
			return RDiv(RealOfInt(1), Mul(x, App("sqrt", SReal, x)))
		}
	}
	return App("pow", SReal, x, y)
}
