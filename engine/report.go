package main

import (
	"bufio"
	"encoding/json"
	"fmt"
	"os"
	"path/filepath"
	"sort"
	"strings"
	"time"
)

type Report struct {
	V          *Verifier
	Prop       string
	Tier       string
	Seed       int
	Results    []*FuncResult
	Start      time.Time
	LoadT      float64
	GenT       float64
	VerifDir   string
	Partial    bool
	NoEvidence bool
	Extra      map[string]interface{}
	Bounded    *BoundedSummary
}

type BoundedSummary struct {
	Cases      int
	Failed     int
	Rule       string
	Samples    []interface{}
	Exhaustive bool
	Bound      string
}

type knownFinding struct {
	Kind string // finding | fixed
	Prop string
	Obl  string
	Text string
}

func loadKnown(path string) []knownFinding {
	f, err := os.Open(path)
	if err != nil {
		return nil
	}
	defer f.Close()
	var out []knownFinding
	sc := bufio.NewScanner(f)
	sc.Buffer(make([]byte, 1<<20), 1<<20)
	for sc.Scan() {
		l := strings.TrimSpace(sc.Text())
		if l == "" || strings.HasPrefix(l, "#") {
			continue
		}
		var kf knownFinding
		switch {
		case strings.HasPrefix(l, "finding:"):
			kf.Kind = "finding"
			l = strings.TrimSpace(l[8:])
		case strings.HasPrefix(l, "fixed:"):
			kf.Kind = "fixed"
			l = strings.TrimSpace(l[6:])
		default:
			continue
		}
		for _, f := range strings.Fields(l) {
			if strings.HasPrefix(f, "property=") {
				kf.Prop = f[9:]
			} else if strings.HasPrefix(f, "obligation=") {
				kf.Obl = f[11:]
			}
		}
		kf.Text = l
		out = append(out, kf)
	}
	return out
}

func loadExpected(path string) []string {
	data, err := os.ReadFile(path)
	if err != nil {
		return nil
	}
	var out []string
	for _, l := range strings.Split(string(data), "\n") {
		l = strings.TrimSpace(l)
		if l != "" && !strings.HasPrefix(l, "#") {
			out = append(out, l)
		}
	}
	return out
}

func (r *Report) Finish() int {
	known := loadKnown(filepath.Join(r.VerifDir, "known_findings.txt"))
	expected := loadExpected(filepath.Join(r.VerifDir, "expected", r.Prop+"."+r.Tier+".obligations"))
	replayDir := filepath.Join(r.VerifDir, "replay", r.Prop)
	os.MkdirAll(replayDir, 0755)
	nObl, nDis, nCover := 0, 0, 0
	nBoundedObl, nBoundedDis := 0, 0
	nBoundedReplays := 0
	nReplays := 0
	boundedSym := map[string]string{}
	bySolver := map[string]int{}
	solverTime := 0.0
	var violations []string
	var knownHits []string
	var samples []interface{}
	var funcs []string
	present := map[string]bool{}
	assumptions := map[string]bool{}
	trusted := map[string]bool{}
	var noTerm, noInv []string
	inlinedAll := map[string]bool{}
	for _, fr := range r.Results {
		funcs = append(funcs, fr.Name)
		if fr.BoundedNote != "" {
			boundedSym[fr.Name] = fr.BoundedNote
		}
		for _, n := range fr.Trusted {
			trusted[n] = true
		}
		for _, n := range fr.Inlined {
			inlinedAll[n] = true
		}
		noTerm = append(noTerm, fr.NoTerm...)
		noInv = append(noInv, fr.NoInv...)
		if fr.Err != "" {
			name := fr.Name + "#generate"
			present[name] = true
			msg := fmt.Sprintf("cannot generate obligations for %s: %s", fr.Name, fr.Err)
			if kf := matchKnown(known, r.Prop, name); kf != nil {
				knownHits = append(knownHits, kf.Text)
			} else {
				p := r.writeReplay(replayDir, name, map[string]interface{}{"obligation": name, "reason": msg, "status": "no-obligations"})
				violations = append(violations, fmt.Sprintf("VIOLATION property=%s replay=%s obligation=%s %s no-failing-input-found", r.Prop, p, name, oneLine(msg)))
			}
			if r.V.opts.Verbose {
				fmt.Printf("  ERR   %s: %s\n", fr.Name, fr.Err)
			}
		}
		for _, o := range fr.Obls {
			if o.Status == "skipped" {
				continue
			}
			present[o.Name] = true
			if o.Cover {
				nCover++
			} else {
				nObl++
			}
			if o.Bounded {
				nBoundedObl++
			}
			bySolver[strings.TrimSuffix(o.Solver, "(cached)")]++
			solverTime += o.Time
			if r.V.opts.Verbose || o.Status != "proved" {
				fmt.Printf("  %-7s %-70s %6.2fs %s\n", o.Status, o.Name, o.Time, o.Solver)
			}
			if o.Status == "proved" {
				if !o.Cover {
					nDis++
					if o.Bounded {
						nBoundedDis++
					}
				}
				if len(samples) < 6 && !o.Cover && o.Solver != "trivial" {
					samples = append(samples, map[string]interface{}{"obligation": o.Name, "kind": o.Kind, "clause": o.Src, "backend": o.Solver, "time_s": o.Time})
				}
				continue
			}
			if o.Cover && o.Status == "unknown" {
				// non-vacuity could not be confirmed: reported, not a violation
				assumptions["cover obligation undecided (non-vacuity not confirmed): "+o.Name] = true
				continue
			}
			if kf := matchKnown(known, r.Prop, o.Name); kf != nil {
				knownHits = append(knownHits, kf.Text)
				continue
			}
			info := map[string]interface{}{"obligation": o.Name, "kind": o.Kind, "clause": o.Src, "status": o.Status, "solver": o.Solver,
				"solver_output": truncate(o.Output, 4000), "smt2": o.File, "model": o.Model}
			suffix := " no-failing-input-found"
			if ((o.Status == "failed" && !o.Bounded && nReplays < 3) || (o.Bounded && nBoundedReplays < 3)) && !o.Cover {
				if o.Bounded {
					nBoundedReplays++
				} else {
					nReplays++
				}
				if path, ok := r.tryReplay(replayDir, o, info); ok {
					violations = append(violations, fmt.Sprintf("VIOLATION property=%s replay=%s obligation=%s", r.Prop, path, o.Name))
					continue
				}
			}
			if o.Cover {
				info["reason"] = "vacuity: precondition or path unsatisfiable"
			}
			p := r.writeReplay(replayDir, o.Name, info)
			violations = append(violations, fmt.Sprintf("VIOLATION property=%s replay=%s obligation=%s status=%s%s", r.Prop, p, o.Name, o.Status, suffix))
		}
	}
	if !r.Partial {
		for _, e := range expected {
			if !present[e] {
				if kf := matchKnown(known, r.Prop, e); kf != nil {
					knownHits = append(knownHits, kf.Text)
					continue
				}
				p := r.writeReplay(replayDir, e, map[string]interface{}{"obligation": e, "status": "missing", "reason": "an obligation claimed for this property was not generated any more (contract target or loop missing)"})
				violations = append(violations, fmt.Sprintf("VIOLATION property=%s replay=%s obligation=%s status=missing no-failing-input-found", r.Prop, p, e))
			}
		}
	}
	if r.Bounded != nil || r.Extra["violations"] != nil {
		// bounded violations are appended by the bounded engine through Extra["violations"]
		if vs, ok := r.Extra["violations"].([]string); ok {
			for _, v := range vs {
				if kf := matchKnownText(known, r.Prop, v); kf != nil {
					knownHits = append(knownHits, kf.Text)
					continue
				}
				violations = append(violations, v)
			}
		}
	}
	sort.Strings(knownHits)
	knownHits = uniq(knownHits)
	for _, k := range knownHits {
		fmt.Printf("KNOWN-FINDING: %s\n", k)
	}
	for _, v := range violations {
		fmt.Println(v)
	}
	wall := time.Since(r.Start).Seconds()
	fmt.Printf("property %s tier %s: %d functions, %d obligations, %d discharged, %d cover checks, %d violations, %d known findings; load %.1fs gen %.1fs wall %.1fs\n",
		r.Prop, r.Tier, len(funcs), nObl, nDis, nCover, len(violations), len(knownHits), r.LoadT, r.GenT, wall)
	if r.NoEvidence || r.Partial {
		if len(violations) > 0 {
			return 1
		}
		return 0
	}
	// evidence
	level := "proof"
	explanation := ""
	if nDis != nObl || len(knownHits) > 0 || r.Bounded != nil || nBoundedObl > 0 {
		level = "other"
	}
	sort.Strings(funcs)
	tb := []string{
		"the VC generator govc (go/ssa symbolic execution, contract evaluation, SMT-LIB encoding) and go/ssa itself",
		"the SMT solvers z3 4.8.12, z3 5.1.0 (z3-new), cvc5 1.0.3",
		"the spec prelude /verif/spec/prelude.smt2 (axioms about uninterpreted math functions)",
	}
	for n := range trusted {
		tb = append(tb, "trusted contract: "+n)
	}
	sort.Strings(tb[3:])
	as := []string{
		"float32/float64 are mathematical reals; math.* and special.* are uninterpreted functions constrained only by the prelude axioms; NaN/Inf not modelled unless stated",
		"int and sized integer types are unbounded mathematical integers (no wrap-around)",
		"sequential Go only: no goroutines, channels, defer/recover, reflection beyond type tags, unsafe beyond storage identity",
		"calls through function values are pure and deterministic (uninterpreted) unless the closure is known at the call site",
		"allocation never fails; pointers stored in the heap point to allocated objects",
	}
	for a := range assumptions {
		as = append(as, a)
	}
	if len(noTerm) > 0 {
		sort.Strings(noTerm)
		as = append(as, "termination not shown for loops: "+strings.Join(uniq(noTerm), ", "))
	}
	if len(noInv) > 0 {
		sort.Strings(noInv)
		as = append(as, "loops verified by havoc only (no invariant): "+strings.Join(uniq(noInv), ", "))
	}
	var inl []string
	for n := range inlinedAll {
		inl = append(inl, n)
	}
	sort.Strings(inl)
	if r.Bounded != nil {
		for _, bs := range r.Bounded.Samples {
			if len(samples) < 10 {
				samples = append(samples, bs)
			}
		}
	}
	if samples == nil {
		samples = []interface{}{}
	}
	if funcs == nil {
		funcs = []string{}
	}
	cov := map[string]interface{}{
		"obligations":             nObl,
		"discharged":              nDis,
		"cover_checks":            nCover,
		"checker_cmd":             fmt.Sprintf("/verif/check %s --tier %s", r.Prop, r.Tier),
		"trusted_base":            tb,
		"functions_under_contract": funcs,
		"functions_inlined":       inl,
		"by_backend":              bySolver,
		"solver_time_s":           round2(solverTime),
		"samples":                 samples,
		"known_findings_matched":  knownHits,
	}
	if r.Bounded != nil {
		cov["bounded_cases"] = r.Bounded.Cases
		cov["bounded_rule"] = r.Bounded.Rule
		cov["bounded_bound"] = r.Bounded.Bound
		cov["bounded_samples"] = r.Bounded.Samples
		cov["exhaustive"] = r.Bounded.Exhaustive
	}
	if nBoundedObl > 0 {
		cov["bounded_symbolic_obligations"] = nBoundedObl
		cov["unbounded_obligations"] = nObl - nBoundedObl
		cov["bounded_symbolic_harnesses"] = boundedSym
		cov["bounded_symbolic_rule"] = "each harness under /verif/bounded/sym builds an input of a FIXED size whose entries are symbolic reals, calls the real library routine through govc's SSA interpreter, and every control-flow path (pivot order, branch on a symbolic comparison) is enumerated by re-execution; on each path the defining equation is checked as an exact identity of rational functions under the path condition (sympy normal form, then z3/cvc5 nonlinear real arithmetic). Bound = the matrix sizes named in the harness functions; NOT a proof for all sizes"
		as = append(as, "bounded symbolic cases: exact real arithmetic (no rounding, so the backward-error tolerance of the property is checked as exact equality); divisors on a path are assumed non-zero (the well-conditioned / nonsingular premise)")
	}
	for k, v := range r.Extra {
		if k != "violations" {
			cov[k] = v
		}
	}
	if level == "other" {
		explanation = fmt.Sprintf("%d proof obligations generated from /repo's current source, %d discharged by SMT (unbounded, all inputs); %d known findings matched (listed in known_findings.txt, not counted as proved)",
			nObl-nBoundedObl, nDis-nBoundedDis, len(knownHits))
		if nBoundedObl > 0 {
			explanation += fmt.Sprintf("; plus %d bounded symbolic obligations (fixed input sizes, all paths, exact reals) which are NOT proofs for all sizes", nBoundedObl)
		}
		if r.Bounded != nil {
			explanation += fmt.Sprintf("; plus %d bounded cases (%s; bound: %s) which are NOT proofs", r.Bounded.Cases, r.Bounded.Rule, r.Bounded.Bound)
		}
		cov["explanation"] = explanation
		// generic fallback keys
		cov["evaluations"] = nObl + nCover
		cov["distinct_nontrivial"] = nDis
		cov["rule"] = "one evaluation = one named proof obligation sent to the solver portfolio; distinct = distinct obligation names; non-trivial = discharged by a solver or by the simplifier"
		if r.Bounded != nil {
			cov["evaluations"] = nObl + nCover + r.Bounded.Cases
			cov["distinct_nontrivial"] = nDis + r.Bounded.Cases - r.Bounded.Failed
			cov["rule"] = "one evaluation = one named proof obligation sent to the solver portfolio, or one enumerated case of a bounded native harness (" + r.Bounded.Rule + "); the enumerated cases are pairwise distinct by construction (distinct operation sequences / distinct cell assignments); non-trivial = discharged by a solver / run to completion with every check passing"
		}
	}
	ev := map[string]interface{}{
		"property_id": r.Prop,
		"tier":        r.Tier,
		"seed":        r.Seed,
		"level":       level,
		"coverage":    cov,
		"assumptions": as,
		"wall_s":      round2(wall),
		"violations":  len(violations),
	}
	os.MkdirAll(filepath.Join(r.VerifDir, "evidence"), 0755)
	b, _ := json.MarshalIndent(ev, "", " ")
	os.WriteFile(filepath.Join(r.VerifDir, "evidence", r.Prop+".json"), b, 0644)
	if len(violations) > 0 {
		return 1
	}
	return 0
}

func round2(f float64) float64 { return float64(int(f*100+0.5)) / 100 }

func uniq(s []string) []string {
	var out []string
	for i, x := range s {
		if i == 0 || x != s[i-1] {
			out = append(out, x)
		}
	}
	return out
}

func truncate(s string, n int) string {
	if len(s) > n {
		return s[:n] + "..."
	}
	return s
}

func oneLine(s string) string {
	return strings.Join(strings.Fields(s), " ")
}

func matchKnown(known []knownFinding, prop, obl string) *knownFinding {
	for i := range known {
		k := &known[i]
		if k.Kind == "finding" && k.Prop == prop && (k.Obl == obl || k.Obl == stripPathSuffix(obl)) {
			return k
		}
	}
	return nil
}

func matchKnownText(known []knownFinding, prop, text string) *knownFinding {
	for i := range known {
		k := &known[i]
		if k.Kind == "finding" && k.Prop == prop && k.Obl != "" && strings.Contains(text, "obligation="+k.Obl) {
			return k
		}
	}
	return nil
}

func (r *Report) writeReplay(dir, name string, info map[string]interface{}) string {
	p := filepath.Join(dir, sanitize(name)+".json")
	b, _ := json.MarshalIndent(info, "", " ")
	os.WriteFile(p, b, 0644)
	return p
}

// stripPathSuffix removes the ".path<N>" suffix of a bounded symbolic obligation name (path numbers
// depend on the enumeration order; a finding may be recorded for the check on every path).
func stripPathSuffix(name string) string {
	k := strings.LastIndex(name, ".path")
	if k < 0 {
		return name
	}
	for _, c := range name[k+5:] {
		if c < '0' || c > '9' {
			return name
		}
	}
	return name[:k]
}
