package main

// Obligation -> SMT-LIB query, solver portfolio (z3-new, z3, cvc5), result parsing.

import (
	"go/types"
	"context"
	"crypto/sha1"
	"fmt"
	"os"
	"os/exec"
	"path/filepath"
	"sort"
	"strings"
	"sync"
	"time"
)

// negSkolem returns a formula equivalent (for satisfiability) to ¬goal with the
// universally quantified variables of the goal replaced by fresh constants.
func negSkolem(goal *Term, ctr *int) *Term {
	return negSkolemC(goal, ctr, nil)
}

func negSkolemC(goal *Term, ctr *int, sks *[]*Term) *Term {
	switch {
	case goal.Op == "and":
		var ds []*Term
		for _, a := range goal.Args {
			ds = append(ds, negSkolemC(a, ctr, sks))
		}
		return Or(ds...)
	case goal.Op == "or":
		var cs []*Term
		for _, a := range goal.Args {
			cs = append(cs, negSkolemC(a, ctr, sks))
		}
		return And(cs...)
	case goal.Op == "=>":
		return And(goal.Args[0], negSkolemC(goal.Args[1], ctr, sks))
	case strings.HasPrefix(goal.Op, "forall#"):
		m := map[*Term]*Term{}
		for _, v := range goal.Vars {
			*ctr++
			m[v] = Const(fmt.Sprintf("sk!%s!%d", strings.SplitN(v.ConstName(), "?", 2)[0], *ctr), v.S)
			if sks != nil {
				*sks = append(*sks, m[v])
			}
		}
		return negSkolemC(Subst(goal.Args[0], m), ctr, sks)
	case goal.Op == "ite" && goal.S == SBool:
		return Ite(goal.Args[0], negSkolemC(goal.Args[1], ctr, sks), negSkolemC(goal.Args[2], ctr, sks))
	}
	return Not(goal)
}

type preludeAxiom struct {
	needs []string
	text  string
}

var preludeAxioms []preludeAxiom

func loadPrelude(path string) error {
	data, err := os.ReadFile(path)
	if err != nil {
		return err
	}
	var cur *preludeAxiom
	for _, l := range strings.Split(string(data), "\n") {
		t := strings.TrimSpace(l)
		if strings.HasPrefix(t, "; needs:") {
			if cur != nil {
				preludeAxioms = append(preludeAxioms, *cur)
			}
			cur = &preludeAxiom{needs: strings.Fields(t[len("; needs:"):])}
			continue
		}
		if t == "" || strings.HasPrefix(t, ";") {
			continue
		}
		if cur != nil {
			cur.text += l + "\n"
		}
	}
	if cur != nil {
		preludeAxioms = append(preludeAxioms, *cur)
	}
	return nil
}

func preludeFor(asserts []*Term) string {
	si := collect(asserts)
	var sb strings.Builder
	for _, ax := range preludeAxioms {
		ok := true
		for _, n := range ax.needs {
			if _, has := si.funcs[n]; !has {
				ok = false
			}
		}
		if ok {
			sb.WriteString(ax.text)
		}
	}
	return sb.String()
}

// stripQuant removes universally quantified conjuncts (weakening a hypothesis).
func stripQuant(h *Term) *Term {
	switch {
	case h.Op == "and":
		var cs []*Term
		for _, a := range h.Args {
			cs = append(cs, stripQuant(a))
		}
		return And(cs...)
	case h.Op == "=>":
		return Implies(h.Args[0], stripQuant(h.Args[1]))
	case strings.HasPrefix(h.Op, "forall#"):
		return True
	}
	return h
}

func hasQuant(t *Term) bool {
	seen := map[*Term]bool{}
	var rec func(t *Term) bool
	rec = func(t *Term) bool {
		if seen[t] {
			return false
		}
		seen[t] = true
		if strings.HasPrefix(t.Op, "forall#") || strings.HasPrefix(t.Op, "exists#") {
			return true
		}
		for _, a := range t.Args {
			if rec(a) {
				return true
			}
		}
		return false
	}
	return rec(t)
}

// Query renders the obligation. The second text (may be empty) is a weaker, quantifier-light
// variant in which universally quantified hypotheses are replaced by their ground instances:
// only an "unsat" answer to it is meaningful.
func (o *Obligation) Query() (string, []*Term) {
	t, _, gt := o.Query2()
	return t, gt
}

func (o *Obligation) Query2() (string, []string, []*Term) {
	if o.Kind == "jet" {
		return o.jetQuery()
	}
	ex := o.Ex
	var as []*Term
	as = append(as, ex.axioms...)
	as = append(as, ex.ifaceAx...)
	as = append(as, ex.assumes[:o.NAssume]...)
	as = append(as, o.Reach)
	var light []*Term
	var lights [][]*Term
	if o.Cover {
		anyQ := false
		for _, h := range as {
			sh := stripQuant(h)
			if sh != h {
				anyQ = true
			}
			light = append(light, sh)
		}
		if anyQ {
			as = light // cover checks run on the quantifier-stripped hypotheses (a sat answer is then only indicative)
		}
		light = nil
	}
	if !o.Cover {
		ctr := 0
		var sks []*Term
		ng := negSkolemC(o.Goal, &ctr, &sks)
		if o.Kind == "site" {
			// only the coefficient obligations need to relate pow atoms with shifted exponents
			as = append(as, powAxiomInstances(append(append([]*Term{}, as...), ng))...)
		}
		tI := time.Now()
		insts, gens := instantiate(as, ng, sks, ex.lowPrio)
		if os.Getenv("GOVC_DEBUG_TIME") != "" {
			fmt.Fprintf(os.Stderr, "instantiate %s %.2fs %d insts\n", o.Name, time.Since(tI).Seconds(), len(insts))
		}
		anyQ := false
		for _, h := range as {
			sh := stripQuant(h)
			if sh != h {
				anyQ = true
			}
			light = append(light, sh)
		}
		if anyQ {
			prev := -1
			for _, n := range gens {
				if n == prev {
					continue
				}
				prev = n
				l := append([]*Term{}, light...)
				l = append(l, insts[:n]...)
				l = append(l, ng)
				lights = append(lights, l)
			}
			if len(lights) == 0 {
				lights = append(lights, append(append([]*Term{}, light...), ng))
			}
		}
		if len(gens) > 0 {
			// the full query carries the first-generation instances only
			as = append(as, insts[:gens[0]]...)
		}
		as = append(as, ng)
	}
	var lightText []string
	for _, l := range lights {
		lsc := &Script{Asserts: l}
		lightText = append(lightText, lsc.Render(preludeFor(l), nil))
	}
	sc := &Script{Asserts: as}
	text := sc.Render(preludeFor(as), nil)
	// values of interest
	var gv []string
	var gt []*Term
	si := collect(as)
	var names []string
	for n, s := range si.consts {
		if si.bound[n] {
			continue
		}
		if s == SInt || s == SReal || s == SBool {
			names = append(names, n)
		}
	}
	sort.Strings(names)
	for _, n := range names {
		gv = append(gv, smtSym(n))
		gt = append(gt, Const(n, si.consts[n]))
	}
	for _, t := range ex.infoCache {
		// only terms over symbols this query declares (an undeclared constant makes the whole get-value fail)
		ti := collect([]*Term{t})
		ok := true
		for n := range ti.consts {
			if _, d := si.consts[n]; !d {
				ok = false
			}
		}
		for n := range ti.funcs {
			if _, d := si.funcs[n]; !d {
				ok = false
			}
		}
		for n := range ti.boxes {
			if _, d := si.boxes[n]; !d {
				ok = false
			}
		}
		for n := range ti.sorts {
			if _, d := si.sorts[n]; !d {
				ok = false
			}
		}
		if !ok {
			continue
		}
		gv = append(gv, t.String())
		gt = append(gt, t)
	}
	if len(gv) > 0 {
		text += "(get-value (" + strings.Join(gv, " ") + "))\n"
	}
	return text, lightText, gt
}

// infoTerms: entry-state values the replay reifier needs: struct fields of pointer parameters, slice
// headers and leading elements, dynamic types and payloads of interface parameters.
func (ex *Exec) infoTerms() []*Term {
	var out []*Term
	var names []string
	for n := range ex.params {
		names = append(names, n)
	}
	sort.Strings(names)
	var tns []string
	for tn := range boxTypes {
		tns = append(tns, tn)
	}
	sort.Strings(tns)
	for _, n := range names {
		v := ex.params[n]
		if v.T == nil {
			continue
		}
		typ := ex.paramTyp[n]
		if typ == nil {
			continue
		}
		out = append(out, ex.valueInfoTerms(typ, v.T, tns, 0)...)
	}
	return out
}

func (ex *Exec) valueInfoTerms(typ types.Type, t *Term, tns []string, depth int) []*Term {
	var out []*Term
	if depth > 2 {
		return nil
	}
	switch u := typ.Underlying().(type) {
	case *types.Slice:
		out = append(out, Acc("sbase", t), Acc("soff", t), Acc("slen", t), Acc("scap", t))
		comp, _ := ex.V.elemComp(u.Elem())
		if h, ok := ex.initHeap[comp]; ok {
			if s := ex.V.sortOf(u.Elem()); s == SInt || s == SReal || s == SBool {
				for k := int64(0); k < 8; k++ {
					out = append(out, Select(Select(h, Acc("sbase", t)), Add(Acc("soff", t), IntLit(k))))
				}
			}
		}
	case *types.Pointer:
		if isStruct(u.Elem()) {
			out = append(out, t)
			out = append(out, ex.structInfoTerms(typ, t)...)
			// leading elements of slice-typed fields
			si := ex.V.structOf(u.Elem())
			for i := 0; i < si.st.NumFields(); i++ {
				f := si.st.Field(i)
				if _, ok := f.Type().Underlying().(*types.Slice); ok {
					comp, _ := ex.V.fieldComp(si, i)
					if h, ok := ex.initHeap[comp]; ok {
						out = append(out, ex.valueInfoTerms(f.Type(), Select(h, t), tns, depth+1)...)
					}
				}
			}
		} else {
			out = append(out, Acc("pbase", t), Acc("pidx", t))
		}
	case *types.Struct:
		si := ex.V.structOf(typ)
		for i := 0; i < si.st.NumFields(); i++ {
			f := si.st.Field(i)
			ft := Acc("fld:"+si.name+"."+f.Name(), t)
			if pt, ok := f.Type().Underlying().(*types.Pointer); ok && !isStruct(pt.Elem()) {
				comp, _ := ex.V.elemComp(pt.Elem())
				if h, ok := ex.initHeap[comp]; ok {
					out = append(out, Select(Select(h, Acc("pbase", ft)), Acc("pidx", ft)))
				}
			}
		}
	case *types.Interface:
		for _, tn := range tns {
			bt := boxTypes[tn]
			if _, isIface := bt.Underlying().(*types.Interface); isIface {
				continue
			}
			out = append(out, IsBox(tn, t))
			out = append(out, ex.valueInfoTerms(bt, Unbox(tn, ex.V.sortOf(bt), t), tns, depth+1)...)
		}
	case *types.Basic:
		out = append(out, t)
	}
	return out
}

type solverRun struct {
	name string
	args []string
}

var solveCache sync.Map

type solveResult struct {
	status string
	solver string
	time   float64
	output string
}

func runSolver(ctx context.Context, bin string, args []string, file string, timeout time.Duration) (string, string, float64) {
	cctx, cancel := context.WithTimeout(ctx, timeout+2*time.Second)
	defer cancel()
	start := time.Now()
	cmd := exec.CommandContext(cctx, bin, append(args, file)...)
	out, _ := cmd.CombinedOutput()
	el := time.Since(start).Seconds()
	s := strings.TrimSpace(string(out))
	first := s
	if k := strings.Index(s, "\n"); k >= 0 {
		first = strings.TrimSpace(s[:k])
	}
	switch first {
	case "sat", "unsat", "unknown":
		return first, s, el
	}
	if strings.Contains(s, "timeout") || cctx.Err() != nil {
		return "timeout", s, el
	}
	return "error", s, el
}

type solverCfg struct {
	name string
	bin  string
	args func(T time.Duration, seed int) []string
}

func z3args(extra ...string) func(T time.Duration, seed int) []string {
	return func(T time.Duration, seed int) []string {
		a := []string{fmt.Sprintf("-T:%d", int(T.Seconds())), fmt.Sprintf("smt.random_seed=%d", seed)}
		return append(a, extra...)
	}
}

func cvc5args(extra ...string) func(T time.Duration, seed int) []string {
	return func(T time.Duration, seed int) []string {
		return append([]string{fmt.Sprintf("--tlimit=%d", T.Milliseconds()), fmt.Sprintf("--seed=%d", seed)}, extra...)
	}
}

var stage1 = []solverCfg{
	{"z3-new/noext", "z3-new", z3args("smt.mbqi=false", "smt.array.extensional=false")},
	{"cvc5", "cvc5", cvc5args()},
	{"z3-new", "z3-new", z3args()},
}
var stage2 = []solverCfg{
	{"z3", "z3", z3args()},
	{"z3-new/norel", "z3-new", z3args("smt.mbqi=false", "smt.relevancy=0")},
	{"z3-new/arith2", "z3-new", z3args("smt.arith.solver=2")},
}

func (V *Verifier) race(file string, cfgs []solverCfg, T time.Duration) (solveResult, bool) {
	type r struct {
		st, out, name string
		el           float64
	}
	ch := make(chan r, len(cfgs))
	cctx, cancel := context.WithCancel(context.Background())
	defer cancel()
	for _, c := range cfgs {
		c := c
		go func() {
			s, o, e := runSolver(cctx, c.bin, c.args(T, V.opts.Seed), file, T)
			ch <- r{s, o, c.name, e}
		}()
	}
	var outs []string
	maxEl := 0.0
	for range cfgs {
		x := <-ch
		if x.el > maxEl {
			maxEl = x.el
		}
		if x.st == "sat" || x.st == "unsat" {
			return solveResult{x.st, x.name, x.el, x.out}, true
		}
		outs = append(outs, x.name+": "+firstLine(x.out))
	}
	return solveResult{"unknown", "none", maxEl, strings.Join(outs, "; ")}, false
}

func (V *Verifier) portfolio(file string) solveResult {
	T := time.Duration(V.opts.Timeout) * time.Second
	t1 := T / 2
	if t1 < 2*time.Second {
		t1 = T
	}
	r1, ok := V.race(file, stage1, t1)
	if ok {
		return r1
	}
	r2, ok := V.race(file, stage2, T)
	r2.time += r1.time
	if ok {
		return r2
	}
	r2.output = r1.output + "; " + r2.output
	return r2
}

func firstLine(s string) string {
	if k := strings.Index(s, "\n"); k >= 0 {
		return s[:k]
	}
	return s
}

func sanitize(s string) string {
	var sb strings.Builder
	for _, r := range s {
		if r >= 'a' && r <= 'z' || r >= 'A' && r <= 'Z' || r >= '0' && r <= '9' || r == '.' || r == '-' || r == '_' || r == '#' {
			sb.WriteRune(r)
		} else {
			sb.WriteByte('_')
		}
	}
	return sb.String()
}

func lastSexp(s string) string {
	s = strings.TrimSpace(s)
	if s == "" {
		return s
	}
	if s[len(s)-1] != ')' {
		k := strings.LastIndexAny(s, " \t\n")
		return s[k+1:]
	}
	depth := 0
	for i := len(s) - 1; i >= 0; i-- {
		if s[i] == ')' {
			depth++
		} else if s[i] == '(' {
			depth--
			if depth == 0 {
				return s[i:]
			}
		}
	}
	return s
}

// SolveAll runs the obligations on worker pools: pass 1 renders each query and tries the cheap
// instance-only variant (one solver process per worker); pass 2 races the solver portfolio on what
// is left, with fewer workers so that the raced processes do not starve each other.
func (V *Verifier) SolveAll(obls []*Obligation) {
	if os.Getenv("GOVC_NOSOLVE") != "" {
		// list generation only (--write-expected): nothing is decided, nothing may be reported from this run
		for _, o := range obls {
			if o.Status == "" {
				o.Status = "proved"
				o.Solver = "not-solved"
			}
		}
		return
	}
	// interface-payload axioms touch the (unsynchronised) type tables: compute them up front
	doneEx := map[*Exec]bool{}
	for _, o := range obls {
		if !doneEx[o.Ex] {
			doneEx[o.Ex] = true
			o.Ex.ifaceAx = o.Ex.ifaceAxioms()
			o.Ex.infoCache = o.Ex.infoTerms()
		}
	}
	run := func(workers int, items []*Obligation, f func(o *Obligation)) {
		var wg sync.WaitGroup
		ch := make(chan *Obligation)
		for w := 0; w < workers; w++ {
			wg.Add(1)
			go func() {
				defer wg.Done()
				for o := range ch {
					f(o)
				}
			}()
		}
		for _, o := range items {
			ch <- o
		}
		close(ch)
		wg.Wait()
	}
	var todo []*Obligation
	for _, o := range obls {
		if o.Status == "" {
			todo = append(todo, o)
		}
	}
	run(V.opts.Workers, todo, func(o *Obligation) {
		V.render(o)
		V.solveRendered(o, 1)
	})
	var left []*Obligation
	for _, o := range todo {
		if o.Status == "" {
			left = append(left, o)
		}
	}
	w2 := V.opts.Workers / 3
	if w2 < 1 {
		w2 = 1
	}
	run(w2, left, func(o *Obligation) { V.solveRendered(o, 2) })
	if os.Getenv("GOVC_DEBUG_CAPS") != "" {
		boundedUndecidedMu.Lock()
		for k, v := range boundedUndecidedTab {
			if v > 0 {
				fmt.Fprintf(os.Stderr, "caps %s = %d\n", k, v)
			}
		}
		boundedUndecidedMu.Unlock()
	}
	// pass 3: the few obligations still undecided are retried one at a time on the quiet machine with
	// three times the budget (slow queries are the ones that time out under load); capped, so that a
	// tree on which many obligations genuinely fail is not held up
	var undecided []*Obligation
	for _, o := range left {
		if o.Status == "unknown" && !o.Cover {
			undecided = append(undecided, o)
		}
	}
	if n := len(undecided); n > 0 && n <= 8 {
		saved := V.opts.Timeout
		V.opts.Timeout = saved * 3
		for _, o := range undecided {
			renderedMu.Lock()
			r := renderedTab[o]
			renderedMu.Unlock()
			if r != nil {
				h := sha1.Sum([]byte(r.text))
				solveCache.Delete(fmt.Sprintf("%x", h[:]))
			}
			o.Time = 0
			V.solveRendered(o, 2)
		}
		V.opts.Timeout = saved
	}
}

type rendered struct {
	light []string
	text string
	gt   []*Term
	gts  []string
}

var renderedTab = map[*Obligation]*rendered{}
var renderedMu sync.Mutex

func (V *Verifier) render(o *Obligation) {
	t0 := time.Now()
	defer func() {
		if os.Getenv("GOVC_DEBUG_TIME") != "" {
			fmt.Fprintf(os.Stderr, "render %s %.2fs\n", o.Name, time.Since(t0).Seconds())
		}
	}()
	text, light, gt := o.Query2()
	r := &rendered{text: text, gt: gt, light: light}
	for _, t := range gt {
		r.gts = append(r.gts, t.String())
	}
	renderedMu.Lock()
	renderedTab[o] = r
	renderedMu.Unlock()
}

func (V *Verifier) solveRendered(o *Obligation, pass int) {
	renderedMu.Lock()
	r := renderedTab[o]
	renderedMu.Unlock()
	text := r.text
	h := sha1.Sum([]byte(text))
	key := fmt.Sprintf("%x", h[:])
	fname := sanitize(o.Name)
	if len(fname) > 150 {
		fname = fname[:150]
	}
	fname += "-" + key[:8] + ".smt2"
	file := filepath.Join(V.opts.WorkDir, fname)
	o.File = file
	if err := os.WriteFile(file, []byte(text), 0644); err != nil {
		o.Status = "error"
		o.Output = err.Error()
		return
	}
	var res solveResult
	if c, ok := solveCache.Load(key); ok {
		res = c.(solveResult)
		res.solver += "(cached)"
	} else {
		if o.Cover {
			st, out, el := runSolver(context.Background(), "z3-new", []string{"-T:3"}, file, 3*time.Second)
			if st != "sat" && st != "unsat" {
				st = "unknown"
			}
			res = solveResult{st, "z3-new", el, out}
		} else {
			done := false
			if o.Bounded && boundedUndecided(o.Func, 0) >= 24 {
				res = solveResult{"unknown", "none", 0, "not attempted: 24 cases of this harness are already undecided or refuted"}
				done = true
			}
			if !done && pass == 1 && o.Bounded && o.Goal.Op == "=" && boundedUndecided("sympy:"+o.Func, 0) < 48 {
				if ok, out, el := sympyProve(o.Goal, o.JetHyp, time.Duration(V.opts.Timeout)*3*time.Second, strings.TrimSuffix(file, ".smt2")+".py"); ok {
					res = solveResult{"unsat", "sympy", el, out}
					done = true
				} else {
					res.time = el
					// identities that need the path condition are left to the SMT solvers; once many cases of a
					// harness are not identities, the normal-form attempt (which can take its whole budget) is skipped
					boundedUndecided("sympy:"+o.Func, 1)
				}
			}
			if !done && pass == 2 && o.Bounded && boundedUndecided(o.Func, 0) >= 24 {
				// many cases of this harness are already undecided or refuted: the harness fails anyway, do not
				// spend the portfolio budget on every remaining case
				res = solveResult{"unknown", "none", res.time, "not attempted: 24 cases of this harness are already undecided or refuted"}
				done = true
			}
			if !done && pass == 2 {
				// retry the deepest instance-only variant on the now quiet machine, racing the portfolio
				type rr struct {
					res solveResult
					ok  bool
				}
				ch := make(chan rr, 2)
				go func() { ch <- rr{V.portfolio(file), true} }()
				nl := 0
				if len(r.light) > 0 {
					nl = 1
					go func() {
						T := time.Duration(V.opts.Timeout) * time.Second
						lfile := strings.TrimSuffix(file, ".smt2") + ".lightR.smt2"
						os.WriteFile(lfile, []byte(r.light[len(r.light)-1]), 0644)
						st, out, el := runSolver(context.Background(), "z3-new", []string{fmt.Sprintf("-T:%d", int(T.Seconds()))}, lfile, T)
						if !V.opts.KeepSMT {
							os.Remove(lfile)
						}
						if st == "unsat" {
							ch <- rr{solveResult{st, "z3-new/instR", el, out}, true}
						} else {
							ch <- rr{solveResult{"unknown", "none", el, out}, false}
						}
					}()
				}
				first := <-ch
				if o.Kind == "jet" && !(first.res.status == "sat" || first.res.status == "unsat") {
					if ok, out, el := sympyProve(o.Goal, o.JetHyp, time.Duration(V.opts.Timeout)*3*time.Second, strings.TrimSuffix(file, ".smt2")+".py"); ok {
						first.res = solveResult{"unsat", "sympy", first.res.time + el, out}
					} else {
						first.res.output += "; sympy: " + truncate(out, 200)
					}
				}
				if nl == 1 && !(first.res.status == "sat" || first.res.status == "unsat") {
					second := <-ch
					if second.res.status == "sat" || second.res.status == "unsat" {
						first = second
					}
				}
				res = first.res
				res.time += o.Time
				done = true
			}
			if !done && len(r.light) > 0 {
				lt := time.Duration(V.opts.Timeout) * time.Second
				for d, ltext := range r.light {
					lfile := strings.TrimSuffix(file, ".smt2") + fmt.Sprintf(".light%d.smt2", d+1)
					os.WriteFile(lfile, []byte(ltext), 0644)
					st, out, el := runSolver(context.Background(), "z3-new", []string{fmt.Sprintf("-T:%d", int(lt.Seconds()))}, lfile, lt)
					res.time += el
					if !V.opts.KeepSMT {
						os.Remove(lfile)
					}
					if st == "unsat" {
						res = solveResult{st, fmt.Sprintf("z3-new/inst%d", d+1), res.time, out}
						done = true
						break
					}
					if st != "sat" {
						break // timeout: deeper instance sets will not be faster
					}
				}
			}
			if !done && len(r.light) == 0 {
				lt := time.Duration(V.opts.Timeout) * time.Second / 2
				st, out, el := runSolver(context.Background(), "z3-new", []string{fmt.Sprintf("-T:%d", int(lt.Seconds()))}, file, lt)
				if st == "unsat" || st == "sat" {
					res = solveResult{st, "z3-new", el, out}
					done = true
				} else {
					res.time = el
				}
			}
			if !done {
				// leave for pass 2
				o.Time = res.time
				return
			}
		}
		solveCache.Store(key, res)
	}
	o.Solver = res.solver
	o.Time = res.time
	o.Output = res.output
	if o.Bounded && !o.Cover && res.status != "unsat" {
		boundedUndecided(o.Func, 1)
	}
	if os.Getenv("GOVC_PROGRESS") != "" {
		fmt.Fprintf(os.Stderr, "progress %-8s %6.2fs %-14s %s\n", res.status, res.time, res.solver, o.Name)
	}
	want := "unsat"
	if o.Cover {
		want = "sat"
	}
	switch {
	case res.status == want:
		o.Status = "proved"
	case res.status == "sat" || res.status == "unsat":
		o.Status = "failed"
		if res.status == "sat" {
			o.Model = parseValuesStr(res.output, r.gts)
			if !o.Cover {
				// prefer a small counterexample (replayable sizes): re-solve with every integer of interest bounded
				if m2 := V.smallModel(file, r, 0); m2 != nil {
					o.Model = m2
				}
				// further genuine counterexamples with differently shaped real values (for the replay:
				// uninterpreted functions such as trunc/floor make the first model's reals arbitrary);
				// computed on demand by the replay
				rr := r
				o.AltModelFn = func() []map[string]string {
					var out []map[string]string
					for variant := 1; variant <= 4; variant++ {
						if m2 := V.smallModel(file, rr, variant); m2 != nil {
							out = append(out, m2)
						}
					}
					return out
				}
			}
		}
	default:
		o.Status = "unknown"
	}
	if o.Status == "proved" && !V.opts.KeepSMT {
		os.Remove(file)
	}
}

func parseValuesStr(out string, gts []string) map[string]string {
	m := map[string]string{}
	k := strings.Index(out, "\n")
	if k < 0 {
		return m
	}
	body := strings.TrimSpace(out[k+1:])
	if !strings.HasPrefix(body, "(") {
		return m
	}
	depth := 0
	start := -1
	var pairs []string
	inQuote := false
	for i := 0; i < len(body); i++ {
		c := body[i]
		if c == '|' {
			inQuote = !inQuote
		}
		if inQuote {
			continue
		}
		if c == '(' {
			depth++
			if depth == 2 {
				start = i
			}
		} else if c == ')' {
			if depth == 2 && start >= 0 {
				pairs = append(pairs, body[start+1:i])
				start = -1
			}
			depth--
		}
	}
	for i, p := range pairs {
		if i >= len(gts) {
			break
		}
		m[gts[i]] = lastSexp(p)
	}
	return m
}

// instantiate: explicit ground instances of universally quantified hypotheses.
// Two mechanisms: (1) syntactic pattern matching of the hypothesis' select-terms against the ground
// select-terms of the goal and of the ground hypotheses, solving unit-coefficient index arithmetic
// (k + c = t  ==>  k := t - c); (2) for hypotheses whose indices are nonlinear in the bound
// variables, brute-force instantiation at the goal's skolem constants and program variables.
func instantiate(hyps []*Term, goal *Term, sks []*Term, lowPrio map[*Term]bool) ([]*Term, []int) {
	ic := &instCtx{seenInst: map[*Term]bool{}, groundSeen: map[*Term]bool{}, sks: sks, perRound: 1000}
	ic.harvest(goal)
	ic.progVars(goal)
	var gens []int
	for round := 0; round < 4; round++ {
		before := len(ic.out)
		// contract clauses (newest first) before instances of earlier rounds before heap-closure axioms
		var pending []*Term
		for k := len(hyps) - 1; k >= 0; k-- {
			if !lowPrio[hyps[k]] {
				pending = append(pending, hyps[k])
			}
		}
		pending = append(pending, ic.out...)
		for _, h := range hyps {
			if lowPrio[h] {
				pending = append(pending, h)
			}
		}
		for _, h := range pending {
			ic.inst(h, True)
			if len(ic.out) > 4000 {
				break
			}
		}
		gens = append(gens, len(ic.out))
		if len(ic.out) == before || len(ic.out) > 4000 {
			break
		}
		for _, t := range ic.out[before:] {
			ic.harvest(t)
		}
	}
	return ic.out, gens
}

// useMatcher enables govc's own syntactic pattern matching (superseded by solver-side E-matching
// with explicit :pattern annotations and the at() index wrapper).
var useMatcher = true

type patInfo struct {
	sc      *substCtx
	pats    []*Term
	full    []*Term
	partial []*Term
}

func selRoot(t *Term) (*Term, int) {
	if strings.HasPrefix(t.Op, "f:uf:") {
		// uninterpreted applications are indexed by their symbol
		return Const("$root:"+t.Op, SBool), len(t.Args)
	}
	d := 0
	for t.Op == "select" {
		t = t.Args[0]
		d++
	}
	return t, d
}

type rootKey struct {
	root  *Term
	depth int
}

type instCtx struct {
	byRoot     map[rootKey][]*Term
	patCache   map[*Term]*patInfo
	perRound   int
	ground     []*Term // ground select terms
	groundSeen map[*Term]bool
	seenInst   map[*Term]bool
	out        []*Term
	sks        []*Term
	pvars      []*Term
}

// harvest collects select-terms that contain no bound variable.
func (ic *instCtx) harvest(t *Term) {
	var rec func(t *Term, bound map[*Term]bool) bool // returns: contains bound var
	memo := map[*Term]bool{}
	rec = func(t *Term, bound map[*Term]bool) bool {
		if len(bound) == 0 {
			if v, ok := memo[t]; ok {
				return v
			}
		}
		has := false
		if bound[t] {
			has = true
		}
		nb := bound
		if len(t.Vars) > 0 {
			nb = map[*Term]bool{}
			for k := range bound {
				nb[k] = true
			}
			for _, v := range t.Vars {
				nb[v] = true
			}
		}
		for _, a := range t.Args {
			if rec(a, nb) {
				has = true
			}
		}
		if !has && (t.Op == "select" || (strings.HasPrefix(t.Op, "f:uf:") && len(t.Args) > 0)) && !ic.groundSeen[t] {
			ic.groundSeen[t] = true
			ic.ground = append(ic.ground, t)
			r, d := selRoot(t)
			if ic.byRoot == nil {
				ic.byRoot = map[rootKey][]*Term{}
			}
			ic.byRoot[rootKey{r, d}] = append(ic.byRoot[rootKey{r, d}], t)
		}
		if len(bound) == 0 {
			memo[t] = has
		}
		return has
	}
	rec(t, map[*Term]bool{})
}

func (ic *instCtx) progVars(goal *Term) {
	seen := map[*Term]bool{}
	var walk func(t *Term)
	walk = func(t *Term) {
		if seen[t] {
			return
		}
		seen[t] = true
		if t.IsConst() && t.S == SInt {
			n := t.ConstName()
			if strings.HasPrefix(n, "p:") || strings.Contains(n, "@L") {
				ic.pvars = append(ic.pvars, t)
			}
		}
		for _, a := range t.Args {
			walk(a)
		}
	}
	walk(goal)
}

func (ic *instCtx) emit(g *Term) {
	if g != True && !ic.seenInst[g] {
		ic.seenInst[g] = true
		ic.out = append(ic.out, g)
	}
}

func (ic *instCtx) inst(h *Term, guard *Term) {
	switch {
	case h.Op == "and":
		for _, a := range h.Args {
			ic.inst(a, guard)
		}
	case h.Op == "=>":
		ic.inst(h.Args[1], And(guard, h.Args[0]))
	case strings.HasPrefix(h.Op, "forall#"):
		ic.instForall(h, guard)
	}
}

func containsAny(t *Term, vars map[*Term]bool, memo map[*Term]bool) bool {
	if v, ok := memo[t]; ok {
		return v
	}
	r := vars[t]
	if !r {
		for _, a := range t.Args {
			if containsAny(a, vars, memo) {
				r = true
				break
			}
		}
	}
	memo[t] = r
	return r
}

func (ic *instCtx) instForall(h *Term, guard *Term) {
	vars := map[*Term]bool{}
	for _, v := range h.Vars {
		vars[v] = true
	}
	body := h.Args[0]
	memo := map[*Term]bool{}
	// maximal select-terms over the bound variables (as E-matching triggers would be chosen)
	var pats []*Term
	var full, partial []*Term
	if ic.patCache == nil {
		ic.patCache = map[*Term]*patInfo{}
	}
	cached := ic.patCache[h]
	pseen := map[*Term]bool{}
	var rec func(t *Term, inner map[*Term]bool, under bool)
	rec = func(t *Term, inner map[*Term]bool, under bool) {
		if len(inner) == 0 && !under {
			if pseen[t] {
				return
			}
			pseen[t] = true
		}
		ni := inner
		if len(t.Vars) > 0 {
			ni = map[*Term]bool{}
			for k := range inner {
				ni[k] = true
			}
			for _, v := range t.Vars {
				ni[v] = true
			}
		}
		isPat := false
		if (t.Op == "select" || strings.HasPrefix(t.Op, "f:uf:")) && containsAny(t, vars, memo) {
			im := map[*Term]bool{}
			if len(ni) == 0 || !containsAny(t, ni, im) {
				isPat = true
				if !under {
					pats = append(pats, t)
				}
			}
		}
		for _, a := range t.Args {
			rec(a, ni, under || isPat)
		}
	}
	if cached == nil {
		rec(body, map[*Term]bool{}, false)
	}
	varsOf := func(t *Term) map[*Term]bool {
		out := map[*Term]bool{}
		for v := range vars {
			m := map[*Term]bool{}
			if containsAny(t, map[*Term]bool{v: true}, m) {
				out[v] = true
			}
		}
		return out
	}
	var results []map[*Term]*Term
	if cached == nil {
		for _, p := range pats {
			if len(varsOf(p)) == len(vars) {
				full = append(full, p)
			} else {
				partial = append(partial, p)
			}
		}
		cached = &patInfo{newSubstCtx(h.Vars), pats, full, partial}
		ic.patCache[h] = cached
	} else {
		pats, full, partial = cached.pats, cached.full, cached.partial
	}
	if useMatcher {
		for _, p := range full {
			for _, g := range ic.candidates(p, vars) {
				if g.S != p.S {
					continue
				}
				nb := map[*Term]*Term{}
				if unify(p, g, vars, nb) && len(nb) == len(vars) {
					results = append(results, nb)
				}
			}
		}
		if len(full) == 0 && len(partial) > 0 {
			// one greedy multi-pattern
			covered := map[*Term]bool{}
			var mp []*Term
			for len(covered) < len(vars) {
				best, gain := -1, 0
				for i, c := range partial {
					g := 0
					for v := range varsOf(c) {
						if !covered[v] {
							g++
						}
					}
					if g > gain {
						gain, best = g, i
					}
				}
				if best < 0 {
					mp = nil
					break
				}
				mp = append(mp, partial[best])
				for v := range varsOf(partial[best]) {
					covered[v] = true
				}
			}
			var join func(k int, b map[*Term]*Term)
			join = func(k int, b map[*Term]*Term) {
				if len(results) >= 400 {
					return
				}
				if k == len(mp) {
					if len(b) == len(vars) {
						results = append(results, b)
					}
					return
				}
				for _, g := range ic.candidates(mp[k], vars) {
					if g.S != mp[k].S {
						continue
					}
					nb := map[*Term]*Term{}
					for x, y := range b {
						nb[x] = y
					}
					if unify(mp[k], g, vars, nb) {
						join(k+1, nb)
					}
				}
			}
			if mp != nil {
				join(0, map[*Term]*Term{})
			}
		}
	}
	if os.Getenv("GOVC_DEBUG_INST") != "" {
		hs := h.String()
		if len(hs) > 300 {
			hs = hs[:300]
		}
		fmt.Fprintf(os.Stderr, "INST %d results, %d pats, %d ground: %s\n", len(results), len(pats), len(ic.ground), hs)
	}
	dedup := map[string]bool{}
	newCount := 0
	for _, b := range results {
		key := ""
		for _, v := range h.Vars {
			key += fmt.Sprintf("%d,", b[v].id)
		}
		if dedup[key] {
			continue
		}
		dedup[key] = true
		g := Implies(guard, SubstWith(cached.sc, body, b))
		if g == True || ic.seenInst[g] {
			continue
		}
		ic.emit(g)
		newCount++
		if newCount >= ic.perRound {
			break // fair share: the remaining matches are picked up in the next round
		}
	}
	// brute force at skolems / program variables
	cands := map[*Sort][]*Term{}
	for _, sk := range ic.sks {
		cands[sk.S] = append(cands[sk.S], sk)
	}
	nsk := map[*Sort]int{}
	for srt, c := range cands {
		nsk[srt] = len(c)
	}
	if len(results) == 0 {
		for _, pv := range ic.pvars {
			if len(cands[pv.S]) < 8 {
				cands[pv.S] = append(cands[pv.S], pv)
			}
		}
	}
	lists := make([][]*Term, len(h.Vars))
	total := 1
	for i, v := range h.Vars {
		c := cands[v.S]
		if len(c) == 0 {
			return
		}
		lists[i] = c
		total *= len(c)
	}
	if total > 64 {
		total = 1
		for i, v := range h.Vars {
			if nsk[v.S] == 0 {
				return
			}
			lists[i] = cands[v.S][:nsk[v.S]]
			total *= len(lists[i])
		}
		if total > 64 {
			return
		}
	}
	idx := make([]int, len(h.Vars))
	for {
		m := map[*Term]*Term{}
		for i, v := range h.Vars {
			m[v] = lists[i][idx[i]]
		}
		ic.emit(Implies(guard, SubstWith(cached.sc, body, m)))
		k := len(h.Vars) - 1
		for k >= 0 {
			idx[k]++
			if idx[k] < len(lists[k]) {
				break
			}
			idx[k] = 0
			k--
		}
		if k < 0 {
			break
		}
	}
}

// candidates: ground select-terms that can possibly match pattern p (same root array and nesting depth
// when the pattern's root is ground).
func (ic *instCtx) candidates(p *Term, vars map[*Term]bool) []*Term {
	r, d := selRoot(p)
	m := map[*Term]bool{}
	if containsAny(r, vars, m) {
		return ic.ground
	}
	return ic.byRoot[rootKey{r, d}]
}

// unify matches pattern p (with variables vars) against ground term g, extending binding b.
func unify(p, g *Term, vars map[*Term]bool, b map[*Term]*Term) bool {
	if vars[p] {
		if cur, ok := b[p]; ok {
			return cur == g
		}
		if p.S != g.S {
			return false
		}
		b[p] = g
		return true
	}
	memo := map[*Term]bool{}
	if !containsAny(p, vars, memo) {
		return p == g
	}
	// unit-coefficient index arithmetic
	if p.Op == "+" && p.S == SInt {
		x, y := p.Args[0], p.Args[1]
		xv, yv := containsAny(x, vars, memo), containsAny(y, vars, memo)
		switch {
		case xv && !yv:
			return unify(x, Sub(g, y), vars, b)
		case yv && !xv:
			return unify(y, Sub(g, x), vars, b)
		}
		return false
	}
	if p.Op == "-" && p.S == SInt {
		x, y := p.Args[0], p.Args[1]
		xv, yv := containsAny(x, vars, memo), containsAny(y, vars, memo)
		if xv && !yv {
			return unify(x, Add(g, y), vars, b)
		}
		return false
	}
	if p.Op != g.Op || len(p.Args) != len(g.Args) || p.S != g.S {
		return false
	}
	for i := range p.Args {
		if !unify(p.Args[i], g.Args[i], vars, b) {
			return false
		}
	}
	return true
}

func termSize(t *Term) int {
	n := 1
	for _, a := range t.Args {
		n += termSize(a)
		if n > 1000 {
			return n
		}
	}
	return n
}

// smallModel re-runs the (satisfiable) query with bounds on all integer terms of interest.
func (V *Verifier) smallModel(file string, r *rendered, variant int) map[string]string {
	text := r.text
	k := strings.LastIndex(text, "(check-sat)")
	if k < 0 {
		return nil
	}
	var sb strings.Builder
	sb.WriteString(text[:k])
	nreal := 0
	for i, g := range r.gt {
		if g.S == SInt {
			sb.WriteString(fmt.Sprintf("(assert (and (<= (- 4) %s) (<= %s 40)))\n", r.gts[i], r.gts[i]))
		}
		if g.S == SReal && variant > 0 {
			nreal++
			t := r.gts[i]
			switch variant {
			case 1:
				sb.WriteString(fmt.Sprintf("(assert (and (< %s 0.0) (not (is_int %s))))\n", t, t))
			case 2:
				sb.WriteString(fmt.Sprintf("(assert (and (> %s 1.0) (not (is_int %s))))\n", t, t))
			case 3:
				sb.WriteString(fmt.Sprintf("(assert (> %s 400.0))\n", t))
			case 4:
				sb.WriteString(fmt.Sprintf("(assert (< %s (- 400.0)))\n", t))
			}
		}
	}
	if variant > 0 && nreal == 0 {
		return nil
	}
	sb.WriteString(text[k:])
	sfile := strings.TrimSuffix(file, ".smt2") + ".small.smt2"
	if err := os.WriteFile(sfile, []byte(sb.String()), 0644); err != nil {
		return nil
	}
	defer os.Remove(sfile)
	st, out, _ := runSolver(context.Background(), "z3-new", []string{"-T:10"}, sfile, 10*time.Second)
	if st != "sat" {
		return nil
	}
	return parseValuesStr(out, r.gts)
}

// jetQuery: hypotheses + negated goal + instances of the exp/log axioms for the atoms that occur.
// denominators collects the divisor terms of real divisions.
func denominators(t *Term, seen map[*Term]bool, out *[]*Term) {
	if seen[t] {
		return
	}
	seen[t] = true
	if t.Op == "/" {
		*out = append(*out, t.Args[1])
	}
	for _, a := range t.Args {
		denominators(a, seen, out)
	}
}

func (o *Obligation) jetQuery() (string, []string, []*Term) {
	as := append([]*Term{}, o.JetHyp...)
	if o.Bounded {
		// bounded cases are about well-conditioned inputs: every divisor that occurs is non-zero
		var dens []*Term
		seen := map[*Term]bool{}
		denominators(o.Goal, seen, &dens)
		for _, h := range o.JetHyp {
			denominators(h, seen, &dens)
		}
		for _, d := range dens {
			as = append(as, Neq(d, RealOfInt(0)))
		}
	}
	as = append(as, Not(o.Goal))
	// goal equalities between log-valued sums are compared through exp (injective)
	var extra []*Term
	var eqs func(t *Term)
	eqs = func(t *Term) {
		switch t.Op {
		case "and":
			for _, a := range t.Args {
				eqs(a)
			}
		case "=":
			if t.Args[0].S == SReal && (mentionsFn(t.Args[0], "log") || mentionsFn(t.Args[1], "log") || mentionsFn(t.Args[0], "log1p") || mentionsFn(t.Args[1], "log1p")) {
				ea, eb := App("exp", SReal, t.Args[0]), App("exp", SReal, t.Args[1])
				extra = append(extra, Eq(Eq(ea, eb), t))
			}
		}
	}
	eqs(o.Goal)
	as = append(as, extra...)
	as = append(as, mathAxiomInstances(as)...)
	if o.Bounded {
		as = cseTerms(as)
	}
	sc := &Script{Asserts: as}
	text := sc.Render(preludeFor(as), nil)
	si := collect(as)
	var names []string
	for n, s := range si.consts {
		if strings.HasPrefix(n, "cse") {
			continue
		}
		if s == SInt || s == SReal || s == SBool {
			names = append(names, n)
		}
	}
	sort.Strings(names)
	var gv []string
	var gt []*Term
	for _, n := range names {
		gv = append(gv, smtSym(n))
		gt = append(gt, Const(n, si.consts[n]))
	}
	if len(gv) > 0 {
		text += "(get-value (" + strings.Join(gv, " ") + "))\n"
	}
	return text, nil, gt
}

func mentionsFn(t *Term, name string) bool {
	seen := map[*Term]bool{}
	var rec func(t *Term) bool
	rec = func(t *Term) bool {
		if seen[t] {
			return false
		}
		seen[t] = true
		if t.Op == "f:"+name {
			return true
		}
		for _, a := range t.Args {
			if rec(a) {
				return true
			}
		}
		return false
	}
	return rec(t)
}

// mathAxiomInstances: ground instances of the defining properties of exp / log / log1p / sqrt for the
// atoms of the query (two rounds so that introduced atoms get their own instances).
func mathAxiomInstances(as []*Term) []*Term {
	var out []*Term
	seenOut := map[*Term]bool{}
	emit := func(t *Term) {
		if t != True && !seenOut[t] {
			seenOut[t] = true
			out = append(out, t)
		}
	}
	zero, one := RealOfInt(0), RealOfInt(1)
	for round := 0; round < 3; round++ {
		atoms := map[string][]*Term{}
		seen := map[*Term]bool{}
		var walk func(t *Term)
		walk = func(t *Term) {
			if seen[t] {
				return
			}
			seen[t] = true
			if strings.HasPrefix(t.Op, "f:") && len(t.Args) == 1 {
				atoms[t.Op[2:]] = append(atoms[t.Op[2:]], t)
			}
			if t.Op == "f:pow" && len(t.Args) == 2 {
				atoms["pow"] = append(atoms["pow"], t)
			}
			for _, a := range t.Args {
				walk(a)
			}
		}
		for _, a := range as {
			walk(a)
		}
		for _, a := range out {
			walk(a)
		}
		for _, e := range atoms["exp"] {
			u := e.Args[0]
			emit(Gt(e, zero))
			emit(Eq(Mul(e, App("exp", SReal, Neg(u))), one))
			emit(Eq(App("log", SReal, e), u))
			// sums: exp(p + q) = exp(p) exp(q)
			if u.Op == "+" {
				emit(Eq(e, Mul(App("exp", SReal, u.Args[0]), App("exp", SReal, u.Args[1]))))
			}
			if u.Op == "-" {
				emit(Eq(Mul(e, App("exp", SReal, u.Args[1])), App("exp", SReal, u.Args[0])))
			}
		}
		// exp is injective / monotone on the atoms present
		ex := atoms["exp"]
		for i := 0; i < len(ex) && i < 12; i++ {
			for j := i + 1; j < len(ex) && j < 12; j++ {
				emit(Eq(Lt(ex[i].Args[0], ex[j].Args[0]), Lt(ex[i], ex[j])))
			}
		}
		for _, l := range atoms["log"] {
			u := l.Args[0]
			emit(Implies(Gt(u, zero), Eq(App("exp", SReal, l), u)))
			if u.Op == "*" {
				emit(Implies(And(Gt(u.Args[0], zero), Gt(u.Args[1], zero)), Eq(l, Add(App("log", SReal, u.Args[0]), App("log", SReal, u.Args[1])))))
			}
		}
		for _, l := range atoms["log1p"] {
			emit(Eq(l, App("log", SReal, Add(one, l.Args[0]))))
		}
		for _, q := range atoms["sqrt"] {
			emit(Implies(Ge(q.Args[0], zero), And(Ge(q, zero), Eq(Mul(q, q), q.Args[0]))))
		}
		for _, t := range powAxiomInstances(append(append([]*Term{}, as...), out...)) {
			emit(t)
		}
	}
	return out
}

// powAxiomInstances: for a positive base, pow(b, e) > 0 and pow(b, e) = pow(b, e-1) * b (shift 1 or 2)
// between the pow atoms with the same base that occur in the given terms. Ground, quantifier-free.
func powAxiomInstances(as []*Term) []*Term {
	var atoms []*Term
	seen := map[*Term]bool{}
	var walk func(t *Term)
	walk = func(t *Term) {
		if seen[t] {
			return
		}
		seen[t] = true
		if t.Op == "f:pow" && len(t.Args) == 2 {
			atoms = append(atoms, t)
		}
		for _, a := range t.Args {
			walk(a)
		}
	}
	for _, a := range as {
		walk(a)
	}
	var out []*Term
	zero, one, two := RealOfInt(0), RealOfInt(1), RealOfInt(2)
	for i, p1 := range atoms {
		b := p1.Args[0]
		out = append(out, Implies(Gt(b, zero), Gt(p1, zero)))
		for j, p2 := range atoms {
			if i == j {
				continue
			}
			// bases and exponent shifts are compared semantically (the code's x is a getter result, the
			// contract's val(a) a heap read; they are equal only modulo the getter's contract)
			d := Sub(p1.Args[1], p2.Args[1])
			if d.IsRealLit() && d.RatVal().Sign() <= 0 {
				continue
			}
			same := Eq(b, p2.Args[0])
			out = append(out, Implies(And(same, Gt(b, zero), Eq(d, one)), Eq(p1, Mul(p2, b))))
			out = append(out, Implies(And(same, Gt(b, zero), Eq(d, two)), Eq(p1, Mul(Mul(p2, b), b))))
		}
	}
	return out
}

var boundedUndecidedTab = map[string]int{}
var boundedUndecidedMu sync.Mutex

// boundedUndecided adds d to, and returns, the number of undecided / refuted cases of a bounded harness.
func boundedUndecided(harness string, d int) int {
	boundedUndecidedMu.Lock()
	defer boundedUndecidedMu.Unlock()
	boundedUndecidedTab[harness] += d
	return boundedUndecidedTab[harness]
}
