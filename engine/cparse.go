package main

// Contract files: structured //@ comments in /repo/**/zz_contracts_verif.go.
// Grammar: see DESIGN.md Appendix A (implemented subset documented in DESIGN §2.1).

import (
	"fmt"
	"os"
	"strconv"
	"strings"
	"unicode"
)

type Expr struct {
	Kind string // ident int real bool nil unop binop field index call old forall exists assert is
	Name string // identifier / operator / field / function
	Args []*Expr
	Vars []QVar
	Type string // for assert/is: Go type expression text
	Src  string
}

type QVar struct {
	Name string
	Sort string // int | real | bool | Go type
}

type Clause struct {
	Kind string // requires ensures panics_when errors_when invariant decreases lemma axiom
	Loop int
	Name string // optional label
	E    *Expr
	Src  string
	Line int
	Callee string // for "site" clauses
}

type SpecFn struct {
	Name   string
	Params []QVar
	Result string
	Body   *Expr
	Pkg    string
}

type Contract struct {
	Pkg       string // package path
	Funcs     []string
	Props     []string
	Clauses   []*Clause
	Modifies  []string
	ModSets   map[string][]*Expr // component spec -> restricting reference set (modifies Comp@{e1,e2} or Comp@{b :: pred(b)})
	HasMod    bool
	Trusted   bool
	Pure      bool
	Model     string
	File      string
	Line      int
	Inline    bool // "inline": never use as contract at call sites, only verify
	NoSafe    bool
	Bindings  map[string]string // schema substitutions (for reporting)
	Opaque    []string
	LoopMods  map[int][]string
	Uses      []string
	Unroll    int
	Ghosts    []*Clause
	Refines   string
	FreshRes  bool
	AtomicPanics bool // "atomic_panics": additionally prove that nothing caller-visible is written before a panic
	JetAlias     []string // jet-level check: alias patterns "c=a"
	JetResult    string
	JetOperands  []string
	JetValueOnly bool
	IsJet        bool
	Renamed      map[string]string // old -> new names of locals/parameters (rename.go)
}

type Lemma struct {
	Name  string
	Props []string
	E     *Expr
	Pkg   string
	Vars  []QVar
	Src   string
}

type ContractFile struct {
	Contracts []*Contract
	Specs     map[string]*SpecFn
	Lemmas    []*Lemma
}

var clauseKeywords = map[string]bool{
	"for": true, "end": true, "spec": true, "func": true, "lemma": true, "props": true, "propsdefault": true,
	"requires": true, "ensures": true, "panics_when": true, "errors_when": true, "modifies": true,
	"loop": true, "decreases": true, "model": true, "trusted": true, "pure": true, "inline": true,
	"nosafe": true, "atomic_panics": true, "site": true, "jetspec": true, "jetsupport": true, "jeterrors_when": true, "jetensures": true, "jetd": true, "jetrequires": true, "jetalias": true, "jetresult": true, "jetoperands": true, "jetvalueonly": true, "unroll": true, "refines": true, "may_panic": true,
}

// ParseContractFile reads the //@ lines of one file.
func ParseContractFile(path, pkg string, cf *ContractFile) error {
	data, err := os.ReadFile(path)
	if err != nil {
		return err
	}
	type rawLine struct {
		text string
		line int
	}
	var lines []rawLine
	for i, l := range strings.Split(string(data), "\n") {
		t := strings.TrimSpace(l)
		if !strings.HasPrefix(t, "//@") {
			continue
		}
		t = strings.TrimSpace(t[3:])
		if t == "" || strings.HasPrefix(t, "--") {
			continue
		}
		// strip trailing comment " -- ..."
		if k := strings.Index(t, " -- "); k >= 0 {
			t = strings.TrimSpace(t[:k])
		}
		lines = append(lines, rawLine{t, i + 1})
	}
	// join continuation lines
	var stmts []rawLine
	for _, l := range lines {
		w := firstWord(l.text)
		if clauseKeywords[w] || len(stmts) == 0 {
			stmts = append(stmts, l)
		} else {
			stmts[len(stmts)-1].text += " " + l.text
		}
	}
	// schema expansion
	type schema struct {
		vars []string
		vals [][]string
		body []rawLine
	}
	var expanded []rawLine
	var cur *schema
	for _, s := range stmts {
		w := firstWord(s.text)
		if w == "for" {
			// for $T in A, B ;  or  for $T,$E in (A,x), (B,y)
			rest := strings.TrimSpace(s.text[3:])
			k := strings.Index(rest, " in ")
			if k < 0 {
				return fmt.Errorf("%s:%d: bad for", path, s.line)
			}
			vs := splitTrim(rest[:k], ",")
			items := strings.TrimSpace(rest[k+4:])
			sc := &schema{vars: vs}
			if len(vs) == 1 {
				for _, it := range splitTrim(items, ",") {
					sc.vals = append(sc.vals, []string{it})
				}
			} else {
				for _, grp := range splitGroups(items) {
					sc.vals = append(sc.vals, splitTrim(grp, ","))
				}
			}
			cur = sc
			continue
		}
		if w == "end" {
			if cur == nil {
				return fmt.Errorf("%s:%d: end without for", path, s.line)
			}
			for _, vals := range cur.vals {
				for _, b := range cur.body {
					t := b.text
					for k, v := range cur.vars {
						if k < len(vals) {
							t = strings.ReplaceAll(t, v, vals[k])
						}
					}
					expanded = append(expanded, rawLine{t, b.line})
				}
			}
			cur = nil
			continue
		}
		if cur != nil {
			cur.body = append(cur.body, s)
		} else {
			expanded = append(expanded, s)
		}
	}
	var c *Contract
	var pendingProps []string
	for _, s := range expanded {
		w := firstWord(s.text)
		rest := strings.TrimSpace(s.text[len(w):])
		fail := func(e error) error { return fmt.Errorf("%s:%d: %v (in %q)", path, s.line, e, s.text) }
		switch w {
		case "spec":
			sp, err := parseSpec(rest)
			if err != nil {
				return fail(err)
			}
			sp.Pkg = pkg
			if _, dup := cf.Specs[sp.Name]; dup {
				return fail(fmt.Errorf("duplicate spec %s", sp.Name))
			}
			cf.Specs[sp.Name] = sp
			c = nil
		case "lemma":
			k := strings.Index(rest, ":")
			if k < 0 {
				return fail(fmt.Errorf("lemma needs name:"))
			}
			head := strings.Fields(rest[:k])
			e, err := ParseExpr(rest[k+1:])
			if err != nil {
				return fail(err)
			}
			lm := &Lemma{Name: head[0], E: e, Pkg: pkg, Src: strings.TrimSpace(rest[k+1:])}
			for _, h := range head[1:] {
				lm.Props = append(lm.Props, h)
			}
			if len(lm.Props) == 0 {
				lm.Props = pendingProps
			}
			cf.Lemmas = append(cf.Lemmas, lm)
			c = nil
		case "func":
			c = &Contract{Pkg: pkg, File: path, Line: s.line, LoopMods: map[int][]string{}}
			// func A [also: B, C]
			if k := strings.Index(rest, "[also:"); k >= 0 {
				also := strings.TrimSuffix(strings.TrimSpace(rest[k+6:]), "]")
				c.Funcs = append(c.Funcs, strings.TrimSpace(rest[:k]))
				c.Funcs = append(c.Funcs, splitTrim(also, ",")...)
			} else {
				c.Funcs = []string{rest}
			}
			c.Props = pendingProps
			cf.Contracts = append(cf.Contracts, c)
		case "propsdefault":
			pendingProps = cleanProps(strings.Fields(rest))
			c = nil
		case "props":
			if c == nil {
				pendingProps = cleanProps(strings.Fields(rest))
			} else {
				c.Props = cleanProps(strings.Fields(rest))
			}
		default:
			if c == nil {
				return fail(fmt.Errorf("clause outside func block"))
			}
			switch w {
			case "requires", "ensures", "panics_when", "errors_when", "may_panic":
				name := ""
				if strings.HasPrefix(rest, "@") {
					k := strings.IndexAny(rest, " \t")
					name = rest[1:k]
					rest = strings.TrimSpace(rest[k:])
				}
				e, err := ParseExpr(rest)
				if err != nil {
					return fail(err)
				}
				c.Clauses = append(c.Clauses, &Clause{Kind: w, E: e, Src: rest, Line: s.line, Name: name})
			case "jetspec", "jetrequires", "jetsupport", "jeterrors_when", "jetensures":
				e, err := ParseExpr(rest)
				if err != nil {
					return fail(err)
				}
				c.IsJet = true
				c.Clauses = append(c.Clauses, &Clause{Kind: w, E: e, Src: rest, Line: s.line})
			case "jetd":
				k := strings.IndexAny(rest, " \t")
				if k < 0 || !strings.HasPrefix(rest, "@") {
					return fail(fmt.Errorf("jetd @dx <expr>"))
				}
				e, err := ParseExpr(rest[k:])
				if err != nil {
					return fail(err)
				}
				c.Clauses = append(c.Clauses, &Clause{Kind: "jetd", Name: rest[1:k], E: e, Src: rest, Line: s.line})
			case "jetalias":
				c.JetAlias = append(c.JetAlias, strings.ReplaceAll(rest, " ", ""))
			case "jetresult":
				c.JetResult = rest
			case "jetoperands":
				c.JetOperands = splitTrim(rest, ",")
			case "jetvalueonly":
				c.JetValueOnly = true
			case "site":
				// site <callee> [@label] <expr>: extra obligation at every call of <callee>, in the callee's parameter names
				k := strings.IndexAny(rest, " \t")
				if k < 0 {
					return fail(fmt.Errorf("site <callee> <expr>"))
				}
				callee := rest[:k]
				body := strings.TrimSpace(rest[k:])
				name := ""
				if strings.HasPrefix(body, "@") {
					j := strings.IndexAny(body, " \t")
					name = body[1:j]
					body = strings.TrimSpace(body[j:])
				}
				e, err := ParseExpr(body)
				if err != nil {
					return fail(err)
				}
				c.Clauses = append(c.Clauses, &Clause{Kind: "site", E: e, Src: body, Line: s.line, Name: name, Callee: callee})
			case "modifies":
				c.HasMod = true
				if rest != "nothing" {
					for _, m := range splitTopLevel(rest) {
						if k := strings.Index(m, "@{"); k >= 0 {
							spec := strings.TrimSpace(m[:k])
							inner := strings.TrimSuffix(strings.TrimSpace(m[k+2:]), "}")
							var es []*Expr
							for _, part := range splitTopLevel(inner) {
								if k2 := strings.Index(part, "::"); k2 >= 0 {
									body, err := ParseExpr(part[k2+2:])
									if err != nil {
										return fail(err)
									}
									es = append(es, &Expr{Kind: "setcomp", Name: strings.TrimSpace(part[:k2]), Args: []*Expr{body}})
									continue
								}
								e, err := ParseExpr(part)
								if err != nil {
									return fail(err)
								}
								es = append(es, e)
							}
							if c.ModSets == nil {
								c.ModSets = map[string][]*Expr{}
							}
							c.ModSets[spec] = es
							c.Modifies = append(c.Modifies, spec)
						} else {
							c.Modifies = append(c.Modifies, m)
						}
					}
				}
			case "pure":
				c.Pure = true
				c.HasMod = true
			case "trusted":
				c.Trusted = true
			case "inline":
				c.Inline = true
			case "nosafe":
				c.NoSafe = true
			case "atomic_panics":
				c.AtomicPanics = true
			case "model":
				c.Model = rest
			case "refines":
				c.Refines = rest
			case "unroll":
				n, _ := strconv.Atoi(rest)
				c.Unroll = n
			case "decreases":
				e, err := ParseExpr(rest)
				if err != nil {
					return fail(err)
				}
				c.Clauses = append(c.Clauses, &Clause{Kind: "decreases", Loop: 0, E: e, Src: rest, Line: s.line})
			case "loop":
				f := strings.Fields(rest)
				if len(f) < 3 {
					return fail(fmt.Errorf("loop k invariant|decreases|modifies e"))
				}
				k, err := strconv.Atoi(f[0])
				if err != nil {
					return fail(err)
				}
				body := strings.TrimSpace(rest[strings.Index(rest, f[1])+len(f[1]):])
				if f[1] == "modifies" {
					c.LoopMods[k] = append(c.LoopMods[k], splitTrim(body, ",")...)
					continue
				}
				if f[1] != "invariant" && f[1] != "decreases" {
					return fail(fmt.Errorf("loop clause kind %q", f[1]))
				}
				name := ""
				if strings.HasPrefix(body, "@") {
					j := strings.IndexAny(body, " \t")
					name = body[1:j]
					body = strings.TrimSpace(body[j:])
				}
				e, err := ParseExpr(body)
				if err != nil {
					return fail(err)
				}
				c.Clauses = append(c.Clauses, &Clause{Kind: f[1], Loop: k, E: e, Src: body, Line: s.line, Name: name})
			default:
				return fail(fmt.Errorf("unknown clause %q", w))
			}
		}
	}
	return nil
}

// cleanProps: "C01@" is "C01" (schema filler), "C01+" marks thorough-tier only.
func cleanProps(ps []string) []string {
	var out []string
	for _, p := range ps {
		out = append(out, strings.TrimSuffix(p, "@"))
	}
	return out
}

func firstWord(s string) string {
	for i, r := range s {
		if unicode.IsSpace(r) {
			return s[:i]
		}
	}
	return s
}

func splitTrim(s, sep string) []string {
	var out []string
	for _, p := range strings.Split(s, sep) {
		p = strings.TrimSpace(p)
		if p != "" {
			out = append(out, p)
		}
	}
	return out
}

// splitTopLevel splits at commas that are not nested in (), [] or {}.
func splitTopLevel(s string) []string {
	var out []string
	depth := 0
	start := 0
	for i, r := range s {
		switch r {
		case '(', '[', '{':
			depth++
		case ')', ']', '}':
			depth--
		case ',':
			if depth == 0 {
				if t := strings.TrimSpace(s[start:i]); t != "" {
					out = append(out, t)
				}
				start = i + 1
			}
		}
	}
	if t := strings.TrimSpace(s[start:]); t != "" {
		out = append(out, t)
	}
	return out
}

func splitGroups(s string) []string {
	var out []string
	depth := 0
	start := -1
	for i, r := range s {
		if r == '(' {
			if depth == 0 {
				start = i + 1
			}
			depth++
		} else if r == ')' {
			depth--
			if depth == 0 {
				out = append(out, s[start:i])
			}
		}
	}
	return out
}

func parseSpec(s string) (*SpecFn, error) {
	// Name(p T, q T) sort = body
	k := strings.Index(s, "(")
	if k < 0 {
		return nil, fmt.Errorf("spec: missing (")
	}
	name := strings.TrimSpace(s[:k])
	depth := 0
	end := -1
	for i := k; i < len(s); i++ {
		if s[i] == '(' {
			depth++
		} else if s[i] == ')' {
			depth--
			if depth == 0 {
				end = i
				break
			}
		}
	}
	if end < 0 {
		return nil, fmt.Errorf("spec: unbalanced")
	}
	sp := &SpecFn{Name: name}
	for _, p := range splitTrim(s[k+1:end], ",") {
		f := strings.Fields(p)
		if len(f) == 1 {
			sp.Params = append(sp.Params, QVar{f[0], "int"})
		} else {
			sp.Params = append(sp.Params, QVar{f[0], strings.Join(f[1:], " ")})
		}
	}
	rest := strings.TrimSpace(s[end+1:])
	eq := strings.Index(rest, "=")
	if eq < 0 {
		return nil, fmt.Errorf("spec: missing =")
	}
	sp.Result = strings.TrimSpace(rest[:eq])
	if sp.Result == "" {
		sp.Result = "bool"
	}
	body, err := ParseExpr(rest[eq+1:])
	if err != nil {
		return nil, err
	}
	sp.Body = body
	return sp, nil
}

// ---------------------------------------------------------------------------
// expression parser

type tok struct {
	k string // id num op eof
	s string
}

type eparser struct {
	toks []tok
	pos  int
	src  string
}

func lexExpr(s string) ([]tok, error) {
	var out []tok
	i := 0
	for i < len(s) {
		c := s[i]
		switch {
		case c == ' ' || c == '\t' || c == '\n':
			i++
		case unicode.IsLetter(rune(c)) || c == '_' || c == '$':
			j := i
			for j < len(s) && (unicode.IsLetter(rune(s[j])) || unicode.IsDigit(rune(s[j])) || s[j] == '_' || s[j] == '$') {
				j++
			}
			out = append(out, tok{"id", s[i:j]})
			i = j
		case unicode.IsDigit(rune(c)):
			j := i
			for j < len(s) && (unicode.IsDigit(rune(s[j])) || s[j] == '.' || s[j] == 'e' && j+1 < len(s) && (unicode.IsDigit(rune(s[j+1])) || s[j+1] == '-')) {
				if s[j] == 'e' && s[j+1] == '-' {
					j++
				}
				j++
			}
			out = append(out, tok{"num", s[i:j]})
			i = j
		default:
			ops := []string{"<==>", "==>", "::", "==", "!=", "<=", ">=", "&&", "||", "(", ")", "[", "]", ",", ".", "<", ">", "+", "-", "*", "/", "%", "!", ":", "{", "}"}
			found := false
			for _, op := range ops {
				if strings.HasPrefix(s[i:], op) {
					out = append(out, tok{"op", op})
					i += len(op)
					found = true
					break
				}
			}
			if !found {
				return nil, fmt.Errorf("bad character %q in %q", c, s)
			}
		}
	}
	out = append(out, tok{"eof", ""})
	return out, nil
}

func ParseExpr(s string) (*Expr, error) {
	toks, err := lexExpr(s)
	if err != nil {
		return nil, err
	}
	p := &eparser{toks: toks, src: s}
	var e *Expr
	func() {
		defer func() {
			if r := recover(); r != nil {
				err = fmt.Errorf("parse error: %v in %q", r, s)
			}
		}()
		e = p.iff()
		if p.peek().k != "eof" {
			panic("trailing input at " + p.peek().s)
		}
	}()
	if e != nil {
		e.Src = strings.TrimSpace(s)
	}
	return e, err
}

func (p *eparser) peek() tok { return p.toks[p.pos] }
func (p *eparser) next() tok { t := p.toks[p.pos]; p.pos++; return t }
func (p *eparser) isOp(s string) bool {
	t := p.peek()
	return t.k == "op" && t.s == s
}
func (p *eparser) expect(s string) {
	if !p.isOp(s) {
		panic(fmt.Sprintf("expected %q got %q", s, p.peek().s))
	}
	p.pos++
}

func (p *eparser) iff() *Expr {
	l := p.imp()
	for p.isOp("<==>") {
		p.next()
		r := p.imp()
		l = &Expr{Kind: "binop", Name: "<==>", Args: []*Expr{l, r}}
	}
	return l
}
func (p *eparser) imp() *Expr {
	l := p.or()
	if p.isOp("==>") {
		p.next()
		r := p.imp()
		return &Expr{Kind: "binop", Name: "==>", Args: []*Expr{l, r}}
	}
	return l
}
func (p *eparser) or() *Expr {
	l := p.and()
	for p.isOp("||") {
		p.next()
		r := p.and()
		l = &Expr{Kind: "binop", Name: "||", Args: []*Expr{l, r}}
	}
	return l
}
func (p *eparser) and() *Expr {
	l := p.cmp()
	for p.isOp("&&") {
		p.next()
		r := p.cmp()
		l = &Expr{Kind: "binop", Name: "&&", Args: []*Expr{l, r}}
	}
	return l
}
func (p *eparser) cmp() *Expr {
	l := p.add()
	for {
		t := p.peek()
		if t.k == "op" && (t.s == "==" || t.s == "!=" || t.s == "<" || t.s == "<=" || t.s == ">" || t.s == ">=") {
			p.next()
			r := p.add()
			l = &Expr{Kind: "binop", Name: t.s, Args: []*Expr{l, r}}
			continue
		}
		return l
	}
}
func (p *eparser) add() *Expr {
	l := p.mul()
	for p.isOp("+") || p.isOp("-") {
		op := p.next().s
		r := p.mul()
		l = &Expr{Kind: "binop", Name: op, Args: []*Expr{l, r}}
	}
	return l
}
func (p *eparser) mul() *Expr {
	l := p.unary()
	for p.isOp("*") || p.isOp("/") || p.isOp("%") {
		op := p.next().s
		r := p.unary()
		l = &Expr{Kind: "binop", Name: op, Args: []*Expr{l, r}}
	}
	return l
}
func (p *eparser) unary() *Expr {
	if p.isOp("!") {
		p.next()
		return &Expr{Kind: "unop", Name: "!", Args: []*Expr{p.unary()}}
	}
	if p.isOp("-") {
		p.next()
		return &Expr{Kind: "unop", Name: "-", Args: []*Expr{p.unary()}}
	}
	if p.isOp("*") {
		// only meaningful in type arguments: *T
		p.next()
		return &Expr{Kind: "unop", Name: "*", Args: []*Expr{p.unary()}}
	}
	return p.postfix()
}

// typeText consumes a Go type expression up to the matching ')' (not consumed).
func (p *eparser) typeText() string {
	var sb strings.Builder
	depth := 0
	for {
		t := p.peek()
		if t.k == "eof" {
			panic("unterminated type")
		}
		if t.k == "op" && t.s == ")" && depth == 0 {
			break
		}
		if t.k == "op" && t.s == "," && depth == 0 {
			break
		}
		if t.k == "op" && t.s == "(" {
			depth++
		}
		if t.k == "op" && t.s == ")" {
			depth--
		}
		sb.WriteString(t.s)
		p.next()
	}
	return sb.String()
}

func (p *eparser) postfix() *Expr {
	e := p.primary()
	for {
		switch {
		case p.isOp("."):
			p.next()
			if p.isOp("(") {
				p.next()
				ty := p.typeText()
				p.expect(")")
				e = &Expr{Kind: "assert", Type: ty, Args: []*Expr{e}}
			} else {
				t := p.next()
				if t.k != "id" {
					panic("field name expected")
				}
				e = &Expr{Kind: "field", Name: t.s, Args: []*Expr{e}}
			}
		case p.isOp("["):
			p.next()
			i := p.iff()
			p.expect("]")
			e = &Expr{Kind: "index", Args: []*Expr{e, i}}
		default:
			return e
		}
	}
}

func (p *eparser) primary() *Expr {
	t := p.next()
	switch t.k {
	case "num":
		if strings.ContainsAny(t.s, ".e") {
			return &Expr{Kind: "real", Name: t.s}
		}
		return &Expr{Kind: "int", Name: t.s}
	case "id":
		switch t.s {
		case "true", "false":
			return &Expr{Kind: "bool", Name: t.s}
		case "nil":
			return &Expr{Kind: "nil"}
		case "forall", "exists":
			var vars []QVar
			for {
				n := p.next()
				if n.k != "id" {
					panic("quantifier variable expected")
				}
				qv := QVar{n.s, "int"}
				if !p.isOp(",") && !p.isOp("::") {
					var sb strings.Builder
					for !p.isOp(",") && !p.isOp("::") {
						if p.peek().k == "eof" {
							panic("unterminated quantifier")
						}
						sb.WriteString(p.next().s)
					}
					qv.Sort = sb.String()
				}
				vars = append(vars, qv)
				if p.isOp(",") {
					p.next()
					continue
				}
				break
			}
			p.expect("::")
			body := p.iff()
			return &Expr{Kind: t.s, Vars: vars, Args: []*Expr{body}}
		case "old":
			p.expect("(")
			e := p.iff()
			p.expect(")")
			return &Expr{Kind: "old", Args: []*Expr{e}}
		case "is":
			// is(T, e)
			p.expect("(")
			ty := p.typeText()
			p.expect(",")
			e := p.iff()
			p.expect(")")
			return &Expr{Kind: "is", Type: ty, Args: []*Expr{e}}
		}
		if p.isOp("(") {
			p.next()
			var args []*Expr
			if !p.isOp(")") {
				for {
					args = append(args, p.iff())
					if p.isOp(",") {
						p.next()
						continue
					}
					break
				}
			}
			p.expect(")")
			return &Expr{Kind: "call", Name: t.s, Args: args}
		}
		return &Expr{Kind: "ident", Name: t.s}
	case "op":
		if t.s == "(" {
			e := p.iff()
			p.expect(")")
			return e
		}
		if t.s == "[" && p.isOp("]") {
			// slice type in a type argument: []T
			p.next()
			inner := p.unary()
			return &Expr{Kind: "ident", Name: "[]" + typeArg(inner)}
		}
	}
	panic(fmt.Sprintf("unexpected token %q", t.s))
}
