package main

// Counterexample replay on the real code (see DESIGN §2.7).

func (r *Report) tryReplay(dir string, o *Obligation, info map[string]interface{}) (string, bool) {
	return "", false
}
