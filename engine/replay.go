package main

// Counterexample replay on the real code (DESIGN §2.7).
//
// The solver's model of a failed obligation is turned into concrete arguments for the function under
// contract; an in-package Go test (injected with `go test -overlay`, nothing is written to the repository)
// calls the real function on them and prints a canonical dump of everything observable afterwards
// (results, receiver and arguments, panic value). The same test is run against the reference commit
// recorded in /verif/reference_commit -- the tree on which this obligation is discharged for ALL
// inputs, i.e. on which the function provably meets its contract. The contract determines the outcome,
// so a different outcome on the current tree for that input is a demonstrated violation.

import (
	"regexp"
	"encoding/json"
	"fmt"
	"go/types"
	"math/big"
	"os"
	"os/exec"
	"path/filepath"
	"sort"
	"strconv"
	"strings"
)

type reify struct {
	ex    *Exec
	model map[string]string
	pre   []string // statements building the arguments
	names map[string]string
	ok    bool
	why   string
	ctr   int
	bases map[string]string // storage base value -> Go variable holding the backing array
}

func (r *reify) val(t *Term) (string, bool) {
	v, ok := r.model[t.String()]
	return v, ok
}

func parseSMTInt(s string) (int64, bool) {
	s = strings.TrimSpace(s)
	neg := false
	if strings.HasPrefix(s, "(-") {
		neg = true
		s = strings.TrimSpace(strings.TrimSuffix(strings.TrimPrefix(s, "(-"), ")"))
	}
	n, err := strconv.ParseInt(s, 10, 64)
	if err != nil {
		return 0, false
	}
	if neg {
		n = -n
	}
	return n, true
}

func parseSMTReal(s string) (float64, bool) {
	s = strings.TrimSpace(s)
	s = strings.ReplaceAll(s, "?", "")
	neg := false
	if strings.HasPrefix(s, "(-") {
		neg = true
		s = strings.TrimSpace(strings.TrimSuffix(strings.TrimPrefix(s, "(-"), ")"))
	}
	var f float64
	if strings.HasPrefix(s, "(/") {
		parts := strings.Fields(strings.TrimSuffix(strings.TrimPrefix(s, "(/"), ")"))
		if len(parts) != 2 {
			return 0, false
		}
		a, ok1 := new(big.Float).SetString(parts[0])
		b, ok2 := new(big.Float).SetString(parts[1])
		if !ok1 || !ok2 {
			return 0, false
		}
		q, _ := new(big.Float).Quo(a, b).Float64()
		f = q
	} else {
		x, err := strconv.ParseFloat(s, 64)
		if err != nil {
			return 0, false
		}
		f = x
	}
	if neg {
		f = -f
	}
	return f, true
}

func (r *reify) fresh(prefix string) string {
	r.ctr++
	return fmt.Sprintf("%s%d", prefix, r.ctr)
}

func (r *reify) intOf(t *Term, def int64) int64 {
	if v, ok := r.val(t); ok {
		if n, ok := parseSMTInt(v); ok {
			return n
		}
	}
	return def
}

func (r *reify) realOf(t *Term, def float64) float64 {
	if v, ok := r.val(t); ok {
		if f, ok := parseSMTReal(v); ok {
			return f
		}
	}
	return def
}

func (r *reify) boolOf(t *Term) bool {
	v, _ := r.val(t)
	return strings.TrimSpace(v) == "true"
}

// sliceExpr builds a Go expression for a []float64-like slice header term (elements: model values where
// available, otherwise distinct defaults).
func (r *reify) sliceExpr(hdr *Term, elemType string, comp string) string {
	ln := r.intOf(Acc("slen", hdr), 0)
	off := r.intOf(Acc("soff", hdr), 0)
	cp := r.intOf(Acc("scap", hdr), ln)
	base := r.intOf(Acc("sbase", hdr), 0)
	if ln < 0 || ln > 4096 || off < 0 || off > 4096 || cp < ln || cp > 8192 {
		r.ok = false
		r.why = "slice header outside replayable range"
		return "nil"
	}
	if base == 0 && ln == 0 {
		return "nil"
	}
	key := fmt.Sprintf("%s/%d", elemType, base)
	arr, ok := r.bases[key]
	need := off + cp
	if !ok {
		arr = r.fresh("store")
		r.bases[key] = arr
		r.pre = append(r.pre, fmt.Sprintf("%s := make([]%s, %d)", arr, elemType, need+8))
		if elemType == "float64" || elemType == "float32" || strings.HasPrefix(elemType, "int") {
			r.pre = append(r.pre, fmt.Sprintf("for k := range %s { %s[k] = %s(k%%7 + 1) }", arr, arr, elemType))
		}
	}
	// model values for the first elements
	if h, ok := r.ex.initHeap[comp]; ok {
		for k := int64(0); k < ln && k < 8; k++ {
			et := Select(Select(h, Acc("sbase", hdr)), Add(Acc("soff", hdr), IntLit(k)))
			if v, ok := r.val(et); ok {
				if f, ok := parseSMTReal(v); ok {
					r.pre = append(r.pre, fmt.Sprintf("if %d < len(%s) { %s[%d] = %s(%v) }", off+k, arr, arr, off+k, elemType, f))
				}
			}
		}
	}
	return fmt.Sprintf("%s[%d:%d:%d]", arr, off, off+ln, off+cp)
}

// arg builds the Go expression for one parameter.
func (r *reify) arg(name string, t *Term, typ types.Type) string {
	V := r.ex.V
	switch u := typ.Underlying().(type) {
	case *types.Basic:
		switch {
		case u.Info()&types.IsBoolean != 0:
			return fmt.Sprint(r.boolOf(t))
		case u.Info()&types.IsInteger != 0:
			return fmt.Sprintf("%s(%d)", V.typeName(typ), r.intOf(t, 0))
		case u.Info()&types.IsFloat != 0:
			return fmt.Sprintf("%s(%v)", V.typeName(typ), r.realOf(t, 0.5))
		}
	case *types.Slice:
		et := V.typeName(u.Elem())
		comp, _ := V.elemComp(u.Elem())
		e := r.sliceExpr(t, et, comp)
		if _, named := typ.(*types.Named); named {
			return fmt.Sprintf("%s(%s)", V.typeName(typ), e)
		}
		return e
	case *types.Pointer:
		if isStruct(u.Elem()) {
			return r.structPtr(t, u.Elem())
		}
	case *types.Struct:
		si := V.structOf(typ)
		if si.st.NumFields() == 1 {
			if pt, ok := si.st.Field(0).Type().Underlying().(*types.Pointer); ok && !isStruct(pt.Elem()) {
				// Float64{ptr}: a cell holding the model value
				v := r.fresh("cell")
				comp, _ := V.elemComp(pt.Elem())
				f := 0.5
				if h, ok := r.ex.initHeap[comp]; ok {
					pp := Acc("fld:"+si.name+"."+si.st.Field(0).Name(), t)
					f = r.realOf(Select(Select(h, Acc("pbase", pp)), Acc("pidx", pp)), 0.5)
				}
				r.pre = append(r.pre, fmt.Sprintf("%s := %s(%v)", v, V.typeName(pt.Elem()), f))
				return fmt.Sprintf("%s{&%s}", V.typeName(typ), v)
			}
		}
	case *types.Interface:
		return r.iface(name, t, typ)
	}
	r.ok = false
	r.why = "parameter " + name + " of type " + typ.String() + " is not replayable"
	return "nil"
}

func (r *reify) structPtr(ref *Term, st types.Type) string {
	V := r.ex.V
	key := "ref/" + fmt.Sprint(r.intOf(ref, -1))
	if v, ok := r.names[key]; ok {
		return v // aliasing: same reference, same object
	}
	if r.intOf(ref, -1) == 0 {
		return "nil"
	}
	si := V.structOf(st)
	name := V.typeName(st)
	v := r.fresh("obj")
	r.names[key] = v
	if name == "Real64" || name == "Real32" {
		// magic scalar: value / order / N from the model, derivative slots deterministic
		val := 0.5
		n, order := int64(0), int64(0)
		for i := 0; i < si.st.NumFields(); i++ {
			comp, _ := V.fieldComp(si, i)
			h, ok := r.ex.initHeap[comp]
			if !ok {
				continue
			}
			switch si.st.Field(i).Name() {
			case "Value":
				val = r.realOf(Select(h, ref), 0.5)
			case "N":
				n = r.intOf(Select(h, ref), 0)
			case "Order":
				order = r.intOf(Select(h, ref), 0)
			}
		}
		if n < 0 || n > 6 {
			n = 2
		}
		if order < 0 || order > 2 {
			order = 2
		}
		r.pre = append(r.pre, fmt.Sprintf("%s := New%s(%v)", v, name, val))
		r.pre = append(r.pre, fmt.Sprintf("%s.Alloc(%d, %d)", v, n, order))
		r.pre = append(r.pre, fmt.Sprintf("for i := 0; i < %d && %d >= 1; i++ { %s.Derivative[i] = 0.25 + float%s(i)*0.5 + %v }", n, order, v, name[4:], float64(r.ctr)*0.125))
		r.pre = append(r.pre, fmt.Sprintf("for i := 0; i < %d && %d >= 2; i++ { for j := 0; j < %d; j++ { %s.Hessian[i][j] = 0.125 + float%s(i+j)*0.25 + float%s(i*j)*0.0625 } }", n, order, n, v, name[4:], name[4:]))
		return v
	}
	var fields []string
	for i := 0; i < si.st.NumFields(); i++ {
		f := si.st.Field(i)
		if isStruct(f.Type()) {
			continue
		}
		comp, _ := V.fieldComp(si, i)
		h, ok := r.ex.initHeap[comp]
		if !ok {
			continue
		}
		ft := Select(h, ref)
		switch fu := f.Type().Underlying().(type) {
		case *types.Basic:
			switch {
			case fu.Info()&types.IsBoolean != 0:
				fields = append(fields, fmt.Sprintf("%s: %v", f.Name(), r.boolOf(ft)))
			case fu.Info()&types.IsInteger != 0:
				fields = append(fields, fmt.Sprintf("%s: %d", f.Name(), r.intOf(ft, 0)))
			case fu.Info()&types.IsFloat != 0:
				fields = append(fields, fmt.Sprintf("%s: %v", f.Name(), r.realOf(ft, 0.5)))
			}
		case *types.Slice:
			et := V.typeName(fu.Elem())
			ecomp, _ := V.elemComp(fu.Elem())
			switch fu.Elem().Underlying().(type) {
			case *types.Basic:
				fields = append(fields, fmt.Sprintf("%s: %s", f.Name(), r.sliceExpr(ft, et, ecomp)))
			default:
				r.ok = false
				r.why = "field " + f.Name() + " of " + name + " is not replayable"
			}
		case *types.Pointer, *types.Map, *types.Interface:
			r.ok = false
			r.why = "field " + f.Name() + " of " + name + " (pointer-linked structure) is not replayable"
		}
	}
	r.pre = append(r.pre, fmt.Sprintf("%s := &%s{%s}", v, name, strings.Join(fields, ", ")))
	return v
}

func (r *reify) iface(name string, t *Term, typ types.Type) string {
	V := r.ex.V
	if t.Op == "C:nil-iface" {
		return "nil"
	}
	var tns []string
	for tn := range boxTypes {
		tns = append(tns, tn)
	}
	sort.Strings(tns)
	for _, tn := range tns {
		bt := boxTypes[tn]
		if !r.boolOf(IsBox(tn, t)) {
			continue
		}
		if !types.AssignableTo(bt, typ) {
			continue
		}
		payload := Unbox(tn, V.sortOf(bt), t)
		return r.arg(name, payload, bt)
	}
	// dynamic type unconstrained by the model: a plain constant scalar where that fits
	if types.AssignableTo(r.lookupType("ConstFloat64"), typ) {
		return "ConstFloat64(0.75)"
	}
	r.ok = false
	r.why = "interface parameter " + name + " has no replayable dynamic type in the model"
	return "nil"
}

func (r *reify) lookupType(n string) types.Type {
	if obj := r.ex.fn.Pkg.Pkg.Scope().Lookup(n); obj != nil {
		return obj.Type()
	}
	return types.Typ[types.Invalid]
}

const dumpHelper = `
func govcDump(sb *strings.Builder, v reflect.Value, depth int, seen map[uintptr]bool) {
	if depth > 6 { sb.WriteString("…"); return }
	switch v.Kind() {
	case reflect.Ptr:
		if v.IsNil() { sb.WriteString("nil"); return }
		if seen[v.Pointer()] { sb.WriteString("<cycle>"); return }
		seen[v.Pointer()] = true
		sb.WriteString("&"); govcDump(sb, v.Elem(), depth+1, seen)
	case reflect.Interface:
		if v.IsNil() { sb.WriteString("nil"); return }
		sb.WriteString(v.Elem().Type().String()); sb.WriteString(":"); govcDump(sb, v.Elem(), depth+1, seen)
	case reflect.Struct:
		sb.WriteString("{")
		for i := 0; i < v.NumField(); i++ {
			if v.Type().Field(i).Name == "tmp1" || v.Type().Field(i).Name == "tmp2" { continue }
			if i > 0 { sb.WriteString(" ") }
			sb.WriteString(v.Type().Field(i).Name); sb.WriteString(":"); govcDump(sb, v.Field(i), depth+1, seen)
		}
		sb.WriteString("}")
	case reflect.Slice, reflect.Array:
		if v.Kind() == reflect.Slice && v.IsNil() { sb.WriteString("[]"); return }
		sb.WriteString("[")
		for i := 0; i < v.Len() && i < 64; i++ { if i > 0 { sb.WriteString(" ") }; govcDump(sb, v.Index(i), depth+1, seen) }
		sb.WriteString("]")
	case reflect.Map:
		keys := v.MapKeys()
		sort.Slice(keys, func(i, j int) bool { return fmt.Sprint(keys[i]) < fmt.Sprint(keys[j]) })
		sb.WriteString("map[")
		for _, k := range keys { sb.WriteString(fmt.Sprint(k)); sb.WriteString(":"); govcDump(sb, v.MapIndex(k), depth+1, seen); sb.WriteString(" ") }
		sb.WriteString("]")
	case reflect.Float32, reflect.Float64:
		sb.WriteString(strconv.FormatFloat(v.Float(), 'g', 12, 64))
	case reflect.Int, reflect.Int8, reflect.Int16, reflect.Int32, reflect.Int64:
		sb.WriteString(strconv.FormatInt(v.Int(), 10))
	case reflect.Bool:
		sb.WriteString(strconv.FormatBool(v.Bool()))
	case reflect.String:
		sb.WriteString(strconv.Quote(v.String()))
	case reflect.Func:
		sb.WriteString("func")
	default:
		sb.WriteString(v.Kind().String())
	}
}
func govcShow(label string, x interface{}) {
	var sb strings.Builder
	govcDump(&sb, reflect.ValueOf(x), 0, map[uintptr]bool{})
	fmt.Printf("GOVC %s = %s\n", label, sb.String())
}
`

// buildReplay returns Go test source calling the function on model-derived inputs.
func buildReplay(o *Obligation) (string, string, bool) {
	ex := o.Ex
	fn := ex.fn
	if fn == nil || fn.Pkg == nil || fn.Signature == nil {
		return "", "no function", false
	}
	r := &reify{ex: ex, model: o.Model, names: map[string]string{}, ok: true, bases: map[string]string{}}
	var args []string
	var shows []string
	for _, p := range fn.Params {
		v := ex.params[p.Name()]
		if v == nil || v.T == nil {
			return "", "parameter without term", false
		}
		e := r.arg(p.Name(), v.T, p.Type())
		an := "a_" + p.Name()
		r.pre = append(r.pre, fmt.Sprintf("%s := %s", an, e))
		r.pre = append(r.pre, "_ = "+an)
		args = append(args, an)
		shows = append(shows, fmt.Sprintf("govcShow(%q, %s)", "arg."+p.Name(), an))
	}
	if !r.ok {
		return "", r.why, false
	}
	var call string
	recv := fn.Signature.Recv()
	if recv != nil {
		call = fmt.Sprintf("%s.%s(%s)", args[0], fn.Name(), strings.Join(args[1:], ", "))
	} else {
		call = fmt.Sprintf("%s(%s)", fn.Name(), strings.Join(args, ", "))
	}
	nres := fn.Signature.Results().Len()
	var lhs []string
	for i := 0; i < nres; i++ {
		lhs = append(lhs, fmt.Sprintf("r%d", i))
	}
	var sb strings.Builder
	sb.WriteString("package " + fn.Pkg.Pkg.Name() + "\n\n")
	sb.WriteString("// Replay of obligation " + o.Name + " (generated by govc; see the .json next to this file).\n\n")
	sb.WriteString("import (\n\t\"fmt\"\n\t\"reflect\"\n\t\"sort\"\n\t\"strconv\"\n\t\"strings\"\n\t\"testing\"\n)\n")
	sb.WriteString(dumpHelper)
	sb.WriteString("\nfunc TestGovcReplay(t *testing.T) {\n")
	for _, l := range r.pre {
		sb.WriteString("\t" + l + "\n")
	}
	sb.WriteString("\tfunc() {\n\t\tdefer func() {\n\t\t\tif p := recover(); p != nil {\n\t\t\t\tfmt.Printf(\"GOVC panic = %T\\n\", p)\n\t\t\t}\n\t\t}()\n")
	if nres > 0 {
		sb.WriteString("\t\t" + strings.Join(lhs, ", ") + " := " + call + "\n")
		for i := range lhs {
			sb.WriteString(fmt.Sprintf("\t\tgovcShow(\"result%d\", r%d)\n", i, i))
		}
	} else {
		sb.WriteString("\t\t" + call + "\n")
	}
	sb.WriteString("\t\tfmt.Println(\"GOVC returned\")\n\t}()\n")
	for _, s := range shows {
		sb.WriteString("\t" + s + "\n")
	}
	sb.WriteString("}\n")
	return sb.String(), "", true
}

func runReplay(repo string, pkgRel string, src string, tag string) (string, error) {
	dir := filepath.Join(repo, pkgRel)
	tmp, err := os.MkdirTemp("", "govc-replay-")
	if err != nil {
		return "", err
	}
	defer os.RemoveAll(tmp)
	tf := filepath.Join(tmp, "zz_govc_replay_test.go")
	if err := os.WriteFile(tf, []byte(src), 0644); err != nil {
		return "", err
	}
	ov := map[string]map[string]string{"Replace": {filepath.Join(dir, "zz_govc_replay_test.go"): tf}}
	ob, _ := json.Marshal(ov)
	ovf := filepath.Join(tmp, "ov.json")
	os.WriteFile(ovf, ob, 0644)
	cmd := exec.Command("go", "test", "-overlay", ovf, "-vet=off", "-v", "-count=1", "-timeout", "60s", "-run", "^TestGovcReplay$", ".")
	cmd.Dir = dir
	cmd.Env = append(os.Environ(), "GOFLAGS=-mod=mod", "GOPROXY=off", "GOSUMDB=off", "GOTOOLCHAIN=local")
	out, _ := cmd.CombinedOutput()
	var lines []string
	for _, l := range strings.Split(string(out), "\n") {
		if strings.HasPrefix(l, "GOVC ") {
			lines = append(lines, l)
		}
	}
	if len(lines) == 0 {
		return "", fmt.Errorf("replay produced no output: %s", truncate(string(out), 600))
	}
	return strings.Join(lines, "\n"), nil
}

func referenceCommit(verifDir string) string {
	b, err := os.ReadFile(filepath.Join(verifDir, "reference_commit"))
	if err != nil {
		return "HEAD"
	}
	return strings.TrimSpace(string(b))
}

func (r *Report) tryReplay(dir string, o *Obligation, info map[string]interface{}) (string, bool) {
	if o.Bounded {
		return r.tryReplayBounded(dir, o, info)
	}
	if o.Model == nil || len(o.Model) == 0 || os.Getenv("GOVC_NO_REPLAY") != "" {
		return "", false
	}
	fn := o.Ex.fn
	if fn == nil || fn.Pkg == nil {
		return "", false
	}
	pkgRel := strings.TrimPrefix(strings.TrimPrefix(fn.Pkg.Pkg.Path(), r.V.rootPath), "/")
	models := append([]map[string]string{o.Model}, o.AltModels...)
	altDone := o.AltModelFn == nil
	refDir := ""
	defer func() {
		if refDir != "" {
			exec.Command("git", "-C", "/repo", "worktree", "remove", "--force", refDir).Run()
			os.RemoveAll(refDir)
		}
	}()
	ref := referenceCommit(r.VerifDir)
	for mi := 0; mi < len(models) || !altDone; mi++ {
		if mi >= len(models) {
			altDone = true
			models = append(models, o.AltModelFn()...)
			if mi >= len(models) {
				break
			}
		}
		model := models[mi]
		saved := o.Model
		o.Model = model
		src, why, ok := buildReplay(o)
		o.Model = saved
		if !ok {
			info["replay"] = "not attempted: " + why
			return "", false
		}
		cur, err := runReplay(repoDir, pkgRel, src, "current")
		if err != nil {
			info["replay"] = "current tree: " + err.Error()
			return "", false
		}
		if refDir == "" {
			d, err := os.MkdirTemp("", "govc-ref-")
			if err != nil {
				return "", false
			}
			if out, err := exec.Command("git", "-C", "/repo", "worktree", "add", "--detach", "--force", d, ref).CombinedOutput(); err != nil {
				os.RemoveAll(d)
				info["replay"] = "cannot materialise reference commit: " + truncate(string(out), 300)
				return "", false
			}
			refDir = d
		}
		refOut, err := runReplay(refDir, pkgRel, src, "reference")
		if err != nil {
			info["replay"] = "reference tree: " + err.Error()
			return "", false
		}
		if mi == 0 || cur != refOut {
			info["replay_current"] = cur
			info["replay_reference"] = refOut
			info["replay_reference_commit"] = ref
		}
		if cur == refOut {
			info["replay"] = fmt.Sprintf("none of the %d solver counterexamples tried distinguishes the current tree from the proved reference tree", mi+1)
			continue
		}
		base := filepath.Join(dir, sanitize(o.Name))
		os.WriteFile(base+"_test.go.txt", []byte(src), 0644)
		info["model"] = model
		info["replay"] = "REPRODUCED: on the solver's counterexample the current tree behaves differently from the reference tree (on which this obligation is proved for all inputs)"
		info["replay_test"] = base + "_test.go.txt"
		b, _ := json.MarshalIndent(info, "", " ")
		os.WriteFile(base+".json", b, 0644)
		return base + ".json", true
	}
	return "", false
}

// ---------------------------------------------------------------------------
// replay of bounded symbolic cases: the harness itself is compiled and run natively on the solver's
// values for the symbolic inputs; its checks then compare floats with a relative tolerance.

var stubRe = regexp.MustCompile(`(?m)^func govc(Sym|Assume|CheckEq|Check|Note)\(.*\n`)

func (r *Report) tryReplayBounded(dir string, o *Obligation, info map[string]interface{}) (string, bool) {
	if os.Getenv("GOVC_NO_REPLAY") != "" || o.Ex == nil || o.Ex.fn == nil || o.Ex.fn.Pkg == nil {
		return "", false
	}
	fn := o.Ex.fn
	pkgRel := strings.TrimPrefix(strings.TrimPrefix(fn.Pkg.Pkg.Path(), r.V.rootPath), "/")
	hdir := filepath.Join(r.VerifDir, "bounded", "sym", pkgRel)
	ents, err := os.ReadDir(hdir)
	if err != nil {
		return "", false
	}
	// candidate inputs: the solver's model first, then a few fixed generic points (a failing rational
	// identity fails almost everywhere on its path)
	var cands []map[string]float64
	m0 := map[string]float64{}
	for k, v := range o.Model {
		if strings.HasPrefix(k, "sym~c") || strings.HasPrefix(k, "sym:") {
			if f, ok := parseSMTReal(v); ok {
				m0[strings.TrimPrefix(strings.TrimPrefix(k, "sym~c"), "sym:")] = f
			}
		}
	}
	if len(m0) > 0 {
		cands = append(cands, m0)
	}
	cands = append(cands, nil, nil, nil) // nil: pseudo-random generic point, seeded by its index
	tmp, err := os.MkdirTemp("", "govc-breplay-")
	if err != nil {
		return "", false
	}
	defer os.RemoveAll(tmp)
	for ci, cand := range cands {
		var vals strings.Builder
		for k, v := range cand {
			vals.WriteString(fmt.Sprintf("\t%q: %v,\n", k, v))
		}
		impl := fmt.Sprintf(`
var govcVals = map[string]float64{
%s}
var govcSeed = uint64(%d)
func govcSym(name string) float64 {
	if v, ok := govcVals[name]; ok {
		return v
	}
	if len(govcVals) > 0 {
		return 0
	}
	// generic point: small non-integer rationals, deterministic per name
	h := govcSeed*1000003 + 14695981039346656037
	for _, c := range []byte(name) {
		h = (h ^ uint64(c)) * 1099511628211
	}
	return float64(int64(h%%2001)-1000)/137.0 + 0.3
}
func govcAssume(c bool) {
	if !c {
		panic("govc: assumption false")
	}
}
func govcCheckEq(name string, a, b float64) {
	d := a - b
	if govcmath.IsNaN(d) || govcmath.Abs(d) > 1e-6*(1+govcmath.Abs(a)+govcmath.Abs(b)) {
		fmt.Printf("GOVC FAIL %%s: %%v != %%v\n", name, a, b)
	}
}
func govcCheck(name string, c bool) {
	if !c {
		fmt.Printf("GOVC FAIL %%s\n", name)
	}
}
func govcNote(s string) {}
func TestGovcReplay(t *govctesting.T) {
	fmt.Println("GOVC run %s")
	%s()
}
`, vals.String(), ci, strings.TrimPrefix(o.Func, "bounded."), strings.TrimPrefix(o.Func, "bounded."))
		ov := map[string]string{}
		var mainSrc string
		for _, e := range ents {
			if !strings.HasSuffix(e.Name(), ".go") {
				continue
			}
			data, err := os.ReadFile(filepath.Join(hdir, e.Name()))
			if err != nil {
				continue
			}
			src := string(data)
			if stubRe.MatchString(src) {
				src = stubRe.ReplaceAllString(src, "")
				// imports of the concrete intrinsics go right after the package clause
				k := strings.Index(src, "\n")
				if pk := strings.Index(src, "package "); pk >= 0 {
					k = pk + strings.Index(src[pk:], "\n")
				}
				src = src[:k+1] + "import govcmath \"math\"\nimport govctesting \"testing\"\n" + src[k+1:] + impl
				mainSrc = src
			}
			tf := filepath.Join(tmp, fmt.Sprintf("c%d_%s", ci, strings.TrimSuffix(e.Name(), ".go")+"_test.go"))
			os.WriteFile(tf, []byte(src), 0644)
			ov[filepath.Join(repoDir, pkgRel, "zz_govc_"+strings.TrimSuffix(e.Name(), ".go")+"_test.go")] = tf
		}
		ob, _ := json.Marshal(map[string]map[string]string{"Replace": ov})
		ovf := filepath.Join(tmp, fmt.Sprintf("ov%d.json", ci))
		os.WriteFile(ovf, ob, 0644)
		cmd := exec.Command("go", "test", "-overlay", ovf, "-vet=off", "-v", "-count=1", "-timeout", "60s", "-run", "^TestGovcReplay$", ".")
		cmd.Dir = filepath.Join(repoDir, pkgRel)
		cmd.Env = append(os.Environ(), "GOFLAGS=-mod=mod", "GOPROXY=off", "GOSUMDB=off", "GOTOOLCHAIN=local")
		out, _ := cmd.CombinedOutput()
		var fails []string
		ran := false
		for _, l := range strings.Split(string(out), "\n") {
			if strings.HasPrefix(l, "GOVC FAIL") {
				fails = append(fails, l)
			}
			if strings.HasPrefix(l, "GOVC run") {
				ran = true
			}
		}
		if strings.Contains(string(out), "panic:") && ran {
			fails = append(fails, "GOVC FAIL panic: "+truncate(string(out), 400))
		}
		if !ran {
			info["replay"] = "native run of the harness did not start: " + truncate(string(out), 600)
			return "", false
		}
		if len(fails) == 0 {
			info["replay"] = fmt.Sprintf("native run of the harness passed on %d candidate inputs", ci+1)
			continue
		}
		base := filepath.Join(dir, sanitize(o.Name))
		os.WriteFile(base+"_test.go.txt", []byte(mainSrc), 0644)
		info["replay"] = "REPRODUCED: the harness, compiled and run natively against the real code on the input below, fails its own check"
		info["replay_input"] = cand
		if cand == nil {
			info["replay_input"] = fmt.Sprintf("generic point, seed %d (see govcSym in the replay test)", ci)
		}
		info["replay_output"] = fails
		info["replay_test"] = base + "_test.go.txt"
		b, _ := json.MarshalIndent(info, "", " ")
		os.WriteFile(base+".json", b, 0644)
		return base + ".json", true
	}
	return "", false
}
