package main

// Symbolic execution of go/ssa functions into guarded verification conditions.

import (
	"fmt"
	"go/token"
	"go/types"
	"sort"
	"strings"

	"golang.org/x/tools/go/ssa"
)

type LocKind int

const (
	LField LocKind = iota
	LElem
	LGlobal
)

type Loc struct {
	Kind LocKind
	Comp string
	S    *Sort // sort of the component
	Ref  *Term // struct ref / base
	Idx  *Term // element index
	Typ  types.Type
}

type Val struct {
	T   *Term
	Loc *Loc
	Tup []*Val
}

type Closure struct {
	Fn       *ssa.Function
	Bindings []*Val
}

type State struct {
	heap  map[string]*Term
	alloc *Term
}

func (s *State) clone() *State {
	n := &State{heap: make(map[string]*Term, len(s.heap)), alloc: s.alloc}
	for k, v := range s.heap {
		n.heap[k] = v
	}
	return n
}

type Obligation struct {
	Name    string
	Kind    string
	Func    string
	Goal    *Term
	Reach   *Term
	NAssume int
	Ex      *Exec
	Src     string
	Cover   bool // expected SAT (reachability / vacuity check)
	Canary  bool
	// results
	Status  string // proved failed unknown error
	Solver  string
	Time    float64
	Model   map[string]string
	AltModels []map[string]string
	AltModelFn func() []map[string]string
	Output  string
	File    string
	Info    map[string]*Term // values worth printing from a model
	JetHyp  []*Term          // jet-level obligations: complete hypothesis list
	Bounded bool             // obligation of a bounded (fixed-size) case: never counted as proved
}

type unsupported struct{ msg string }

func (e *Exec) fail(format string, a ...interface{}) {
	panic(unsupported{fmt.Sprintf(format, a...)})
}

type panicPoint struct {
	reach *Term
	st    *State
	where string
	kind  string // "" for explicit panic, else runtime check kind (index, nil, div, ...)
	nass  int
}

type retPoint struct {
	reach *Term
	st    *State
	vals  []*Val
}

type Exec struct {
	V        *Verifier
	fn       *ssa.Function
	con      *Contract
	name     string
	assumes  []*Term
	obls     []*Obligation
	st0      *State
	initHeap map[string]*Term
	closures map[*Term]*Closure
	counters map[string]int
	params   map[string]*Val
	paramTyp map[string]types.Type
	panics   []panicPoint
	inlined  map[string]bool
	blocked  []string
	trusted  map[string]bool
	allComps map[string]*Sort
	noSafe   bool
	ghostOld map[string]*Val
	usedContracts map[string]bool
	loopsWithoutInv []string
	termNotShown    []string
	curFrame *Frame
	assumed  map[*Term]bool
	curState *State
	axioms   []*Term // facts about the entry state only (always included)
	ifaceBounds []ifaceBound
	ifaceAx     []*Term
	infoCache   []*Term
	lowPrio     map[*Term]bool // hypotheses instantiated last (heap-closure axioms)
	rangeIters  []rangeIter
}

type Frame struct {
	ex      *Exec
	fn      *ssa.Function
	vals    map[ssa.Value]*Val
	depth   int
	top     bool
	names   map[string]ssa.Value
	free    map[*ssa.FreeVar]*Val
	loops   map[*ssa.BasicBlock]*loopInfo
	prefix  string
	parent  *Frame
	rangeOf map[ssa.Value]rangeIter
}

type rangeIter struct {
	m  *Term
	it *Term
	mt *types.Map
}

type loopInfo struct {
	head    *ssa.BasicBlock
	body    map[*ssa.BasicBlock]bool
	ordinal int
	headSt  *State
	headVals map[string]*Val // names visible at header (phis by comment)
	decHead []*Term
}

func (ex *Exec) markLow(t *Term) {
	if ex.lowPrio == nil {
		ex.lowPrio = map[*Term]bool{}
	}
	ex.lowPrio[t] = true
}

func (ex *Exec) assume(t *Term) {
	if t == True {
		return
	}
	if ex.assumed == nil {
		ex.assumed = map[*Term]bool{}
	}
	if ex.assumed[t] {
		return
	}
	ex.assumed[t] = true
	ex.assumes = append(ex.assumes, t)
}

func (ex *Exec) oblige(kind, label string, reach, goal *Term, src string) *Obligation {
	if ex.noSafe && strings.HasPrefix(kind, "safe") {
		return nil
	}
	ex.counters[kind]++
	name := fmt.Sprintf("%s#%s", ex.name, kind)
	if label != "" {
		name += "." + label
	} else {
		name += fmt.Sprintf(".%d", ex.counters[kind])
	}
	// make names unique
	base := name
	for k := 2; ; k++ {
		dup := false
		for _, o := range ex.obls {
			if o.Name == name {
				dup = true
			}
		}
		if !dup {
			break
		}
		name = fmt.Sprintf("%s~%d", base, k)
	}
	o := &Obligation{Name: name, Kind: kind, Func: ex.name, Goal: goal, Reach: reach, NAssume: len(ex.assumes), Ex: ex, Src: src}
	if goal == True || reach == False {
		o.Status = "proved"
		o.Solver = "trivial"
	}
	ex.obls = append(ex.obls, o)
	return o
}

// ---------------------------------------------------------------------------
// heap access

func (ex *Exec) heapGet(st *State, comp string, s *Sort) *Term {
	if t, ok := st.heap[comp]; ok {
		return t
	}
	if t, ok := ex.initHeap[comp]; ok {
		return t
	}
	t := Const(comp+"@0", s)
	ex.initHeap[comp] = t
	ex.allComps[comp] = s
	if ex.st0 != nil {
		if ax := ex.closureAxiom(comp, t, ex.st0.alloc); ax != True {
			ex.axioms = append(ex.axioms, ax)
			ex.markLow(ax)
		}
	}
	return t
}

func (ex *Exec) heapSet(st *State, comp string, t *Term) {
	ex.allComps[comp] = t.S
	if _, ok := ex.initHeap[comp]; !ok {
		ex.heapGet(&State{heap: map[string]*Term{}}, comp, t.S)
	}
	st.heap[comp] = t
}

func (ex *Exec) readLoc(st *State, l *Loc) *Term {
	h := ex.heapGet(st, l.Comp, l.S)
	switch l.Kind {
	case LField:
		return Select(h, l.Ref)
	case LElem:
		return Select(Select(h, l.Ref), l.Idx)
	case LGlobal:
		return h
	}
	panic("readLoc")
}

func (ex *Exec) writeLoc(st *State, l *Loc, v *Term) {
	h := ex.heapGet(st, l.Comp, l.S)
	switch l.Kind {
	case LField:
		ex.heapSet(st, l.Comp, Store(h, l.Ref, v))
	case LElem:
		row := Select(h, l.Ref)
		ex.heapSet(st, l.Comp, Store(h, l.Ref, Store(row, l.Idx, v)))
	case LGlobal:
		if v.S != h.S && h.S == SReal {
			v = ToReal(v)
		}
		ex.heapSet(st, l.Comp, v)
	}
}

// loadStruct builds the datatype value of the struct at ref.
func (ex *Exec) loadStruct(st *State, si *structInfo, ref *Term) *Term {
	args := make([]*Term, si.st.NumFields())
	for i := 0; i < si.st.NumFields(); i++ {
		f := si.st.Field(i)
		if isStruct(f.Type()) {
			args[i] = ex.loadStruct(st, ex.V.structOf(f.Type()), Add(ref, IntLit(int64(si.offset[i]))))
		} else {
			comp, s := ex.V.fieldComp(si, i)
			args[i] = Select(ex.heapGet(st, comp, s), ref)
		}
	}
	return Ctr(si.decl, si.decl.Ctors[0], args...)
}

func (ex *Exec) storeStruct(st *State, si *structInfo, ref *Term, v *Term) {
	for i := 0; i < si.st.NumFields(); i++ {
		f := si.st.Field(i)
		fv := Acc("fld:"+si.name+"."+f.Name(), v)
		if isStruct(f.Type()) {
			ex.storeStruct(st, ex.V.structOf(f.Type()), Add(ref, IntLit(int64(si.offset[i]))), fv)
		} else {
			comp, s := ex.V.fieldComp(si, i)
			ex.heapSet(st, comp, Store(ex.heapGet(st, comp, s), ref, fv))
		}
	}
}

func (ex *Exec) allocRef(st *State, n int) *Term {
	r := st.alloc
	st.alloc = Add(st.alloc, IntLit(int64(n)))
	return r
}

// pointer value <-> location
func (ex *Exec) locOf(v *Val, ptrType types.Type) *Loc {
	if v.Loc != nil {
		return v.Loc
	}
	pt, ok := ptrType.Underlying().(*types.Pointer)
	if !ok {
		ex.fail("locOf: not a pointer type %s", ptrType)
	}
	if isStruct(pt.Elem()) {
		ex.fail("locOf: struct pointer used as scalar location")
	}
	et := pt.Elem()
	if at, ok := et.Underlying().(*types.Array); ok {
		et = at.Elem()
	}
	comp, s := ex.V.elemComp(et)
	return &Loc{Kind: LElem, Comp: comp, S: s, Ref: Acc("pbase", v.T), Idx: Acc("pidx", v.T), Typ: et}
}

func (ex *Exec) termOf(v *Val) *Term {
	if v.T != nil {
		return v.T
	}
	if v.Loc != nil {
		switch v.Loc.Kind {
		case LElem:
			return MkPtr(v.Loc.Ref, v.Loc.Idx)
		case LField:
			// encode field addresses as pointers with a negative index unique per component
			return MkPtr(v.Loc.Ref, IntLit(-int64(ex.V.strToken(v.Loc.Comp).IntVal().Int64())-1000))
		case LGlobal:
			return MkPtr(IntLit(-int64(ex.V.strToken(v.Loc.Comp).IntVal().Int64())-1000), IntLit(0))
		}
	}
	ex.fail("termOf: tuple or empty value")
	return nil
}

// ---------------------------------------------------------------------------
// function execution

type edgeIn struct {
	from  *ssa.BasicBlock
	reach *Term
	st    *State
}

func (ex *Exec) newFrame(fn *ssa.Function, depth int, top bool) *Frame {
	fr := &Frame{ex: ex, fn: fn, vals: map[ssa.Value]*Val{}, depth: depth, top: top, names: map[string]ssa.Value{}, free: map[*ssa.FreeVar]*Val{}, parent: ex.curFrame, rangeOf: map[ssa.Value]rangeIter{}}
	return fr
}

func findLoops(fn *ssa.Function) map[*ssa.BasicBlock]*loopInfo {
	loops := map[*ssa.BasicBlock]*loopInfo{}
	for _, b := range fn.Blocks {
		for _, s := range b.Succs {
			if s.Dominates(b) {
				li := loops[s]
				if li == nil {
					li = &loopInfo{head: s, body: map[*ssa.BasicBlock]bool{s: true}}
					loops[s] = li
				}
				// natural loop of back edge b->s
				stack := []*ssa.BasicBlock{b}
				for len(stack) > 0 {
					x := stack[len(stack)-1]
					stack = stack[:len(stack)-1]
					if li.body[x] {
						continue
					}
					li.body[x] = true
					for _, p := range x.Preds {
						stack = append(stack, p)
					}
				}
			}
		}
	}
	// ordinal: by source position of header (fall back to block index)
	var heads []*ssa.BasicBlock
	for h := range loops {
		heads = append(heads, h)
	}
	sort.Slice(heads, func(i, j int) bool {
		pi, pj := blockPos(heads[i]), blockPos(heads[j])
		if pi != pj {
			return pi < pj
		}
		return heads[i].Index < heads[j].Index
	})
	for k, h := range heads {
		loops[h].ordinal = k + 1
	}
	return loops
}

func blockPos(b *ssa.BasicBlock) token.Pos {
	var best token.Pos
	for _, in := range b.Instrs {
		if p := in.Pos(); p != token.NoPos {
			if best == token.NoPos || p < best {
				best = p
			}
		}
	}
	if best == token.NoPos {
		// use the earliest position of the loop body blocks reachable
		return token.Pos(1<<30 + b.Index)
	}
	return best
}

// topo order ignoring back edges
func rpo(fn *ssa.Function) []*ssa.BasicBlock {
	seen := map[*ssa.BasicBlock]bool{}
	var order []*ssa.BasicBlock
	var dfs func(b *ssa.BasicBlock)
	dfs = func(b *ssa.BasicBlock) {
		seen[b] = true
		for _, s := range b.Succs {
			if !seen[s] {
				dfs(s)
			}
		}
		order = append(order, b)
	}
	if len(fn.Blocks) > 0 {
		dfs(fn.Blocks[0])
	}
	for i, j := 0, len(order)-1; i < j; i, j = i+1, j-1 {
		order[i], order[j] = order[j], order[i]
	}
	return order
}

// mergeStates builds ite-merged state from incoming edges.
func (ex *Exec) mergeStates(ins []edgeIn) (*State, *Term) {
	if len(ins) == 1 {
		return ins[0].st.clone(), ins[0].reach
	}
	reach := False
	for _, e := range ins {
		reach = Or(reach, e.reach)
	}
	comps := map[string]bool{}
	for _, e := range ins {
		for c := range e.st.heap {
			comps[c] = true
		}
	}
	st := &State{heap: map[string]*Term{}}
	last := ins[len(ins)-1]
	for c := range comps {
		s := ex.allComps[c]
		t := ex.heapGet(last.st, c, s)
		for k := len(ins) - 2; k >= 0; k-- {
			t = Ite(ins[k].reach, ex.heapGet(ins[k].st, c, s), t)
		}
		st.heap[c] = t
	}
	a := last.st.alloc
	for k := len(ins) - 2; k >= 0; k-- {
		a = Ite(ins[k].reach, ins[k].st.alloc, a)
	}
	st.alloc = a
	return st, reach
}

func (ex *Exec) mergeVals(conds []*Term, vals []*Val) *Val {
	if len(vals) == 1 {
		return vals[0]
	}
	if vals[0].Tup != nil {
		out := &Val{}
		for i := range vals[0].Tup {
			var vs []*Val
			for _, v := range vals {
				vs = append(vs, v.Tup[i])
			}
			out.Tup = append(out.Tup, ex.mergeVals(conds, vs))
		}
		return out
	}
	// identical?
	same := true
	for _, v := range vals[1:] {
		if v.T != vals[0].T || v.Loc != vals[0].Loc {
			same = false
		}
	}
	if same {
		return vals[0]
	}
	t := ex.termOf(vals[len(vals)-1])
	for k := len(vals) - 2; k >= 0; k-- {
		t = Ite(conds[k], ex.termOf(vals[k]), t)
	}
	return &Val{T: t}
}

// execFunc executes fn from state st under reach; returns return points.
func (ex *Exec) execFunc(fr *Frame, args []*Val, st *State, reach *Term) []retPoint {
	fn := fr.fn
	if len(fn.Blocks) == 0 {
		ex.fail("no body for %s", fn)
	}
	saved := ex.curFrame
	ex.curFrame = fr
	defer func() { ex.curFrame = saved }()
	for i, p := range fn.Params {
		fr.vals[p] = args[i]
		fr.names[p.Name()] = p
	}
	fr.loops = findLoops(fn)
	order := rpo(fn)
	incoming := map[*ssa.BasicBlock][]edgeIn{}
	incoming[fn.Blocks[0]] = []edgeIn{{nil, reach, st}}
	var rets []retPoint
	hasDefer := false
	for _, b := range fn.Blocks {
		for _, in := range b.Instrs {
			if _, ok := in.(*ssa.Defer); ok {
				hasDefer = true
			}
		}
	}
	if hasDefer {
		ex.fail("unsupported:defer in %s", relFuncName(fn))
	}
	for _, b := range order {
		ins := incoming[b]
		li := fr.loops[b]
		if len(ins) == 0 {
			continue // unreachable
		}
		var bst *State
		var breach *Term
		if li != nil {
			bst, breach = ex.enterLoop(fr, li, ins)
		} else {
			bst, breach = ex.mergeStates(ins)
			// phis
			for _, in := range b.Instrs {
				phi, ok := in.(*ssa.Phi)
				if !ok {
					break
				}
				var conds []*Term
				var vals []*Val
				for _, e := range ins {
					idx := predIndex(b, e.from)
					conds = append(conds, e.reach)
					vals = append(vals, ex.value(fr, phi.Edges[idx]))
				}
				fr.vals[phi] = ex.mergeVals(conds, vals)
				if phi.Comment != "" {
					fr.names[phi.Comment] = phi
				}
			}
		}
		if breach == False {
			continue
		}
		// execute instructions
		terminated := false
		for _, in := range b.Instrs {
			if _, ok := in.(*ssa.Phi); ok {
				continue
			}
			switch x := in.(type) {
			case *ssa.If:
				c := ex.value(fr, x.Cond).T
				ex.flow(fr, incoming, b, b.Succs[0], And(breach, c), bst)
				ex.flow(fr, incoming, b, b.Succs[1], And(breach, Not(c)), bst)
				terminated = true
			case *ssa.Jump:
				ex.flow(fr, incoming, b, b.Succs[0], breach, bst)
				terminated = true
			case *ssa.Return:
				var vs []*Val
				for _, r := range x.Results {
					vs = append(vs, ex.value(fr, r))
				}
				rets = append(rets, retPoint{breach, bst, vs})
				terminated = true
			case *ssa.Panic:
				ex.panics = append(ex.panics, panicPoint{breach, bst.clone(), fmt.Sprintf("%s:b%d", relFuncName(fn), b.Index), "", len(ex.assumes)})
				terminated = true
			default:
				ex.curState = bst
				ex.instr(fr, in, bst, breach)
			}
			if terminated {
				break
			}
		}
	}
	return rets
}

func predIndex(b, from *ssa.BasicBlock) int {
	for i, p := range b.Preds {
		if p == from {
			return i
		}
	}
	panic("predIndex")
}

// flow records an edge; back edges discharge loop obligations instead.
func (ex *Exec) flow(fr *Frame, incoming map[*ssa.BasicBlock][]edgeIn, from, to *ssa.BasicBlock, reach *Term, st *State) {
	if reach == False {
		return
	}
	if li := fr.loops[to]; li != nil && li.body[from] && to.Dominates(from) {
		ex.backEdge(fr, li, from, reach, st)
		return
	}
	incoming[to] = append(incoming[to], edgeIn{from, reach, st.clone()})
}

// value returns the symbolic value of an ssa.Value in a frame.
func (ex *Exec) value(fr *Frame, v ssa.Value) *Val {
	switch x := v.(type) {
	case *ssa.Const:
		t, err := ex.V.constTerm(x)
		if err != nil {
			ex.fail("%v", err)
		}
		return &Val{T: t}
	case *ssa.Global:
		comp := "G:" + ex.V.qual(x.Pkg.Pkg) + "." + x.Name()
		et := x.Type().(*types.Pointer).Elem()
		if isStruct(et) {
			// global struct variable: a fixed pseudo-ref per global
			return &Val{T: App("gref:"+comp, SInt)}
		}
		return &Val{Loc: &Loc{Kind: LGlobal, Comp: comp, S: ex.V.sortOf(et), Typ: et}}
	case *ssa.Function:
		t := App("fn:"+x.String(), SInt)
		if _, ok := ex.closures[t]; !ok {
			ex.closures[t] = &Closure{Fn: x}
		}
		return &Val{T: t}
	case *ssa.FreeVar:
		if r, ok := fr.free[x]; ok {
			return r
		}
		ex.fail("unbound free variable %s", x.Name())
	case *ssa.Builtin:
		ex.fail("builtin %s used as value", x.Name())
	}
	if r, ok := fr.vals[v]; ok {
		return r
	}
	ex.fail("value %s (%T) not defined in %s", v.Name(), v, relFuncName(fr.fn))
	return nil
}

func (ex *Exec) safe(kind string, reach, goal *Term, src string) {
	if ex.noSafe {
		return
	}
	imp := Implies(reach, goal)
	if imp == True || ex.assumed[imp] {
		return // already established on this path
	}
	// a failed runtime check is a Go panic: allowed only under the declared panic condition
	ex.panics = append(ex.panics, panicPoint{And(reach, Not(goal)), ex.curState.clone(), "runtime " + kind + " check at " + src, kind, len(ex.assumes)})
	// after the check, execution continues only if it held
	ex.assume(imp)
}

func (ex *Exec) posStr(in ssa.Instruction) string {
	p := in.Pos()
	if p == token.NoPos {
		return ""
	}
	ps := ex.V.prog.Fset.Position(p)
	return fmt.Sprintf("%s:%d", shortFile(ps.Filename), ps.Line)
}

func shortFile(f string) string {
	return strings.TrimPrefix(f, repoDir+"/")
}

func (ex *Exec) instr(fr *Frame, in ssa.Instruction, st *State, reach *Term) {
	V := ex.V
	switch x := in.(type) {
	case *ssa.DebugRef:
		if !x.IsAddr {
			if id, ok := x.Expr.(interface{ String() string }); ok {
				_ = id
			}
			if obj := x.Object(); obj != nil {
				fr.names[obj.Name()] = x.X
			}
		} else if obj := x.Object(); obj != nil {
			fr.names["&"+obj.Name()] = x.X
		}
	case *ssa.Alloc:
		et := x.Type().(*types.Pointer).Elem()
		if isStruct(et) {
			si := V.structOf(et)
			ref := ex.allocRef(st, si.size)
			ex.storeStruct(st, si, ref, V.zeroOf(et))
			fr.vals[x] = &Val{T: ref}
		} else {
			elt := et
			if at, ok := et.Underlying().(*types.Array); ok {
				elt = at.Elem()
				if isStruct(elt) {
					ex.fail("array of structs")
				}
			}
			comp, s := V.elemComp(elt)
			base := ex.allocRef(st, 1)
			h := ex.heapGet(st, comp, s)
			ex.heapSet(st, comp, Store(h, base, ConstArr(s.B, V.zeroOf(elt))))
			fr.vals[x] = &Val{Loc: &Loc{Kind: LElem, Comp: comp, S: s, Ref: base, Idx: IntLit(0), Typ: elt}}
		}
		if x.Comment != "" {
			fr.names["&"+x.Comment] = x
		}
	case *ssa.FieldAddr:
		pv := ex.value(fr, x.X)
		ref := pv.T
		if ref == nil {
			ex.fail("FieldAddr on location")
		}
		st0 := x.X.Type().Underlying().(*types.Pointer).Elem()
		si := V.structOf(st0)
		ex.safe("nil", reach, Neq(ref, IntLit(0)), ex.posStr(x))
		f := si.st.Field(x.Field)
		if isStruct(f.Type()) {
			fr.vals[x] = &Val{T: Add(ref, IntLit(int64(si.offset[x.Field])))}
		} else {
			comp, s := V.fieldComp(si, x.Field)
			fr.vals[x] = &Val{Loc: &Loc{Kind: LField, Comp: comp, S: s, Ref: ref, Typ: f.Type()}}
		}
	case *ssa.Field:
		sv := ex.value(fr, x.X)
		si := V.structOf(x.X.Type())
		f := si.st.Field(x.Field)
		fr.vals[x] = &Val{T: Acc("fld:"+si.name+"."+f.Name(), sv.T)}
	case *ssa.IndexAddr:
		xv := ex.value(fr, x.X)
		iv := ex.value(fr, x.Index).T
		switch t := x.X.Type().Underlying().(type) {
		case *types.Slice:
			if isStruct(t.Elem()) {
				ex.fail("slice of struct values")
			}
			sl := xv.T
			ex.safe("index", reach, And(Le(IntLit(0), iv), Lt(iv, Acc("slen", sl))), ex.posStr(x))
			comp, s := V.elemComp(t.Elem())
			fr.vals[x] = &Val{Loc: &Loc{Kind: LElem, Comp: comp, S: s, Ref: Acc("sbase", sl), Idx: At(Acc("soff", sl), iv), Typ: t.Elem()}}
		case *types.Pointer:
			at := t.Elem().Underlying().(*types.Array)
			l := ex.locOf(xv, x.X.Type())
			ex.safe("index", reach, And(Le(IntLit(0), iv), Lt(iv, IntLit(at.Len()))), ex.posStr(x))
			fr.vals[x] = &Val{Loc: &Loc{Kind: LElem, Comp: l.Comp, S: l.S, Ref: l.Ref, Idx: At(l.Idx, iv), Typ: at.Elem()}}
		default:
			ex.fail("IndexAddr on %s", x.X.Type())
		}
	case *ssa.Index:
		xv := ex.value(fr, x.X)
		iv := ex.value(fr, x.Index).T
		if xv.T != nil && xv.T.S.K == KArr {
			fr.vals[x] = &Val{T: Select(xv.T, iv)}
		} else {
			ex.fail("Index on %s", x.X.Type())
		}
	case *ssa.UnOp:
		ex.unop(fr, x, st, reach)
	case *ssa.BinOp:
		a := ex.termOf(ex.value(fr, x.X))
		b := ex.termOf(ex.value(fr, x.Y))
		fr.vals[x] = &Val{T: ex.binop(x, a, b, reach)}
	case *ssa.Store:
		av := ex.value(fr, x.Addr)
		vv := ex.value(fr, x.Val)
		et := x.Addr.Type().Underlying().(*types.Pointer).Elem()
		if isStruct(et) {
			if av.T == nil {
				ex.fail("store struct to location")
			}
			ex.safe("nil", reach, Neq(av.T, IntLit(0)), ex.posStr(x))
			ex.storeStruct(st, V.structOf(et), av.T, vv.T)
		} else {
			l := ex.locOf(av, x.Addr.Type())
			if av.Loc == nil {
				ex.safe("nil", reach, Neq(av.T, NilPtr), ex.posStr(x))
			}
			ex.writeLoc(st, l, ex.termOf(vv))
		}
	case *ssa.Call:
		fr.vals[x] = ex.call(fr, x, st, reach)
	case *ssa.MakeClosure:
		t := Fresh("clo", SInt)
		var bs []*Val
		for _, b := range x.Bindings {
			bs = append(bs, ex.value(fr, b))
		}
		ex.closures[t] = &Closure{Fn: x.Fn.(*ssa.Function), Bindings: bs}
		fr.vals[x] = &Val{T: t}
	case *ssa.MakeInterface:
		xv := ex.value(fr, x.X)
		boxTypes[V.typeName(x.X.Type())] = x.X.Type()
		fr.vals[x] = &Val{T: Box(V.typeName(x.X.Type()), ex.termOf(xv))}
	case *ssa.ChangeInterface:
		fr.vals[x] = ex.value(fr, x.X)
	case *ssa.ChangeType:
		fr.vals[x] = ex.value(fr, x.X)
	case *ssa.Convert:
		fr.vals[x] = ex.convert(fr, x)
	case *ssa.TypeAssert:
		xv := ex.value(fr, x.X).T
		var okT, res *Term
		if _, isIface := x.AssertedType.Underlying().(*types.Interface); isIface {
			okT = App("implements:"+V.typeName(x.AssertedType), SBool, xv)
			if types.Identical(x.AssertedType.Underlying(), types.NewInterfaceType(nil, nil)) {
				okT = True
			} else if _, ok := x.X.Type().Underlying().(*types.Interface); ok && types.AssignableTo(x.X.Type(), x.AssertedType) {
				okT = Neq(xv, NilIface)
			}
			res = xv
		} else {
			tn := V.typeName(x.AssertedType)
			okT = IsBox(tn, xv)
			res = Unbox(tn, V.sortOf(x.AssertedType), xv)
		}
		if x.CommaOk {
			fr.vals[x] = &Val{Tup: []*Val{{T: Ite(okT, res, V.zeroSort(res.S))}, {T: okT}}}
		} else {
			ex.safe("assert", reach, okT, ex.posStr(x))
			fr.vals[x] = &Val{T: res}
		}
	case *ssa.Extract:
		tv := ex.value(fr, x.Tuple)
		if tv.Tup == nil {
			ex.fail("extract from non-tuple")
		}
		fr.vals[x] = tv.Tup[x.Index]
	case *ssa.MakeSlice:
		ln := ex.value(fr, x.Len).T
		cp := ex.value(fr, x.Cap).T
		et := x.Type().Underlying().(*types.Slice).Elem()
		if isStruct(et) {
			ex.fail("make slice of structs")
		}
		ex.safe("makeslice", reach, And(Le(IntLit(0), ln), Le(ln, cp)), ex.posStr(x))
		comp, s := V.elemComp(et)
		base := ex.allocRef(st, 1)
		ex.heapSet(st, comp, Store(ex.heapGet(st, comp, s), base, ConstArr(s.B, V.zeroOf(et))))
		fr.vals[x] = &Val{T: MkSlice(base, IntLit(0), ln, cp)}
	case *ssa.MakeMap:
		mt := x.Type().Underlying().(*types.Map)
		hc, hs, vc, vs := V.mapComps(mt)
		ref := ex.allocRef(st, 1)
		ex.heapSet(st, hc, Store(ex.heapGet(st, hc, hs), ref, ConstArr(hs.B, False)))
		ex.heapSet(st, vc, Store(ex.heapGet(st, vc, vs), ref, ConstArr(vs.B, V.zeroOf(mt.Elem()))))
		fr.vals[x] = &Val{T: ref}
	case *ssa.Slice:
		ex.sliceOp(fr, x, st, reach)
	case *ssa.Lookup:
		mv := ex.value(fr, x.X)
		mt, ok := x.X.Type().Underlying().(*types.Map)
		if !ok {
			ex.fail("string index")
		}
		k := ex.termOf(ex.value(fr, x.Index))
		hc, hs, vc, vs := V.mapComps(mt)
		has := Select(Select(ex.heapGet(st, hc, hs), mv.T), k)
		val := Ite(has, Select(Select(ex.heapGet(st, vc, vs), mv.T), k), V.zeroOf(mt.Elem()))
		if x.CommaOk {
			fr.vals[x] = &Val{Tup: []*Val{{T: val}, {T: has}}}
		} else {
			fr.vals[x] = &Val{T: val}
		}
	case *ssa.MapUpdate:
		mv := ex.value(fr, x.Map).T
		mt := x.Map.Type().Underlying().(*types.Map)
		k := ex.termOf(ex.value(fr, x.Key))
		val := ex.termOf(ex.value(fr, x.Value))
		hc, hs, vc, vs := V.mapComps(mt)
		ex.safe("nilmap", reach, Neq(mv, IntLit(0)), ex.posStr(x))
		hh := ex.heapGet(st, hc, hs)
		ex.heapSet(st, hc, Store(hh, mv, Store(Select(hh, mv), k, True)))
		vh := ex.heapGet(st, vc, vs)
		ex.heapSet(st, vc, Store(vh, mv, Store(Select(vh, mv), k, val)))
	case *ssa.Range:
		mt, ok := x.X.Type().Underlying().(*types.Map)
		if !ok {
			ex.fail("range over %s", x.X.Type())
		}
		mv := ex.value(fr, x.X).T
		it := ex.allocRef(st, 1)
		comp, cs := V.rangeComp(mt)
		ex.heapSet(st, comp, Store(ex.heapGet(st, comp, cs), it, ConstArr(cs.B, False)))
		ex.rangeIters = append(ex.rangeIters, rangeIter{m: mv, it: it, mt: mt})
		fr.vals[x] = &Val{T: it}
		fr.rangeOf[x] = rangeIter{m: mv, it: it, mt: mt}
	case *ssa.Next:
		ri, ok := fr.rangeOf[x.Iter]
		if !ok {
			ex.fail("next on unknown iterator")
		}
		mt := ri.mt
		comp, cs := V.rangeComp(mt)
		hc, hs, vc, vs := V.mapComps(mt)
		vis := Select(ex.heapGet(st, comp, cs), ri.it)
		has := Select(ex.heapGet(st, hc, hs), ri.m)
		vals := Select(ex.heapGet(st, vc, vs), ri.m)
		ex.counters["next"]++
		n := ex.counters["next"]
		okT := Fresh(fmt.Sprintf("rng.ok%d", n), SBool)
		k := Fresh(fmt.Sprintf("rng.k%d", n), cs.B.A)
		q := Const(fmt.Sprintf("rq?%d", n), cs.B.A)
		ex.assume(Implies(reach, Implies(okT, And(Select(has, k), Not(Select(vis, k))))))
		ex.assume(Implies(reach, Implies(Not(okT), Forall([]*Term{q}, Implies(Select(has, q), Select(vis, q))))))
		ex.heapSet(st, comp, Store(ex.heapGet(st, comp, cs), ri.it, Ite(okT, Store(vis, k, True), vis)))
		fr.vals[x] = &Val{Tup: []*Val{{T: okT}, {T: k}, {T: Select(vals, k)}}}
	case *ssa.RunDefers:
		// no Defer instructions in supported functions
	default:
		ex.fail("unsupported:%T in %s", in, relFuncName(fr.fn))
	}
}

func (ex *Exec) unop(fr *Frame, x *ssa.UnOp, st *State, reach *Term) {
	V := ex.V
	xv := ex.value(fr, x.X)
	switch x.Op {
	case token.MUL: // load
		et := x.X.Type().Underlying().(*types.Pointer).Elem()
		if isStruct(et) {
			if xv.T == nil {
				ex.fail("load struct from location")
			}
			ex.safe("nil", reach, Neq(xv.T, IntLit(0)), ex.posStr(x))
			fr.vals[x] = &Val{T: ex.loadStruct(st, V.structOf(et), xv.T)}
			return
		}
		if _, isArr := et.Underlying().(*types.Array); isArr {
			l := ex.locOf(xv, x.X.Type())
			fr.vals[x] = &Val{T: Select(ex.heapGet(st, l.Comp, l.S), l.Ref)}
			return
		}
		if xv.Loc == nil {
			ex.safe("nil", reach, Neq(xv.T, NilPtr), ex.posStr(x))
		}
		l := ex.locOf(xv, x.X.Type())
		t := ex.readLoc(st, l)
		fr.vals[x] = &Val{T: t}
	case token.SUB:
		fr.vals[x] = &Val{T: Neg(xv.T)}
	case token.NOT:
		fr.vals[x] = &Val{T: Not(xv.T)}
	case token.XOR:
		fr.vals[x] = &Val{T: App("bitnot", SInt, xv.T)}
	default:
		ex.fail("unsupported unop %s", x.Op)
	}
}

// noteLoaded adds the allocation-closure assumption for pointer-like loaded values.
func (ex *Exec) noteLoaded(t *Term, typ types.Type, st *State, reach *Term) {
	switch u := typ.Underlying().(type) {
	case *types.Pointer:
		if isStruct(u.Elem()) {
			ex.assume(Implies(reach, And(Le(IntLit(0), t), Lt(t, st.alloc))))
		} else {
			ex.assume(Implies(reach, And(Le(IntLit(0), Acc("pbase", t)), Lt(Acc("pbase", t), st.alloc))))
		}
	case *types.Slice:
		ex.assume(Implies(reach, ex.sliceWF(t, st)))
	case *types.Map:
		ex.assume(Implies(reach, And(Le(IntLit(0), t), Lt(t, st.alloc))))
	case *types.Interface:
		ex.ifaceBounds = append(ex.ifaceBounds, ifaceBound{t, st.alloc, reach})
	case *types.Struct:
		// struct values containing pointers: handled field-wise on demand
		si := ex.V.structOf(typ)
		for i := 0; i < si.st.NumFields(); i++ {
			f := si.st.Field(i)
			switch f.Type().Underlying().(type) {
			case *types.Pointer, *types.Slice, *types.Map:
				ex.noteLoaded(Acc("fld:"+si.name+"."+f.Name(), t), f.Type(), st, reach)
			}
		}
	}
}

// ptrBound: every pointer-like part of value t (of Go type typ) refers to an object allocated below alloc.
func (ex *Exec) ptrBound(t *Term, typ types.Type, alloc *Term) *Term {
	switch u := typ.Underlying().(type) {
	case *types.Pointer:
		if isStruct(u.Elem()) {
			return And(Le(IntLit(0), t), Lt(t, alloc))
		}
		return And(Le(IntLit(0), Acc("pbase", t)), Lt(Acc("pbase", t), alloc))
	case *types.Slice:
		return ex.sliceWF(t, &State{alloc: alloc})
	case *types.Map:
		return And(Le(IntLit(0), t), Lt(t, alloc))
	case *types.Struct:
		si := ex.V.structOf(typ)
		var cs []*Term
		for i := 0; i < si.st.NumFields(); i++ {
			f := si.st.Field(i)
			cs = append(cs, ex.ptrBound(Acc("fld:"+si.name+"."+f.Name(), t), f.Type(), alloc))
		}
		return And(cs...)
	}
	return True
}

type ifaceBound struct {
	t     *Term
	alloc *Term
	reach *Term
}

// ifaceAxioms: payload pointers of interface values are allocated (generated lazily, once the
// set of dynamic types mentioned in the VC is known).
func (ex *Exec) ifaceAxioms() []*Term {
	var names []string
	for n := range boxTypes {
		names = append(names, n)
	}
	sort.Strings(names)
	var out []*Term
	for _, ib := range ex.ifaceBounds {
		for _, n := range names {
			typ := boxTypes[n]
			if _, isIface := typ.Underlying().(*types.Interface); isIface {
				continue
			}
			b := ex.ptrBound(Unbox(n, ex.V.sortOf(typ), ib.t), typ, ib.alloc)
			if b != True {
				out = append(out, Implies(And(ib.reach, IsBox(n, ib.t)), b))
			}
		}
	}
	return out
}

// closureAxiom: all pointers stored in heap component comp (array term h) are allocated below alloc.
func (ex *Exec) closureAxiom(comp string, h *Term, alloc *Term) *Term {
	typ := ex.V.compType[comp]
	if typ == nil {
		return True
	}
	ex.counters["clos"]++
	k := ex.counters["clos"]
	switch {
	case strings.HasPrefix(comp, "F:"):
		r := Const(fmt.Sprintf("cr?%d", k), SInt)
		b := ex.ptrBound(Select(h, r), typ, alloc)
		if b == True {
			return True
		}
		return Forall([]*Term{r}, Implies(And(Le(IntLit(0), r), Lt(r, alloc)), b))
	case strings.HasPrefix(comp, "E:"):
		r := Const(fmt.Sprintf("cr?%d", k), SInt)
		i := Const(fmt.Sprintf("ci?%d", k), SInt)
		b := ex.ptrBound(Select(Select(h, r), i), typ, alloc)
		if b == True {
			return True
		}
		return Forall([]*Term{r, i}, Implies(And(Le(IntLit(0), r), Lt(r, alloc)), b))
	case strings.HasPrefix(comp, "Mv:"):
		r := Const(fmt.Sprintf("cr?%d", k), SInt)
		i := Const(fmt.Sprintf("ci?%d", k), h.S.B.A)
		b := ex.ptrBound(Select(Select(h, r), i), typ, alloc)
		if b == True {
			return True
		}
		return Forall([]*Term{r, i}, Implies(And(Le(IntLit(0), r), Lt(r, alloc)), b))
	}
	return True
}

func (ex *Exec) sliceWF(t *Term, st *State) *Term {
	return And(Le(IntLit(0), Acc("sbase", t)), Lt(Acc("sbase", t), st.alloc), Le(IntLit(0), Acc("soff", t)), Le(IntLit(0), Acc("slen", t)), Le(Acc("slen", t), Acc("scap", t)),
		Implies(Eq(Acc("sbase", t), IntLit(0)), And(Eq(Acc("slen", t), IntLit(0)), Eq(Acc("scap", t), IntLit(0)))))
}

func (ex *Exec) binop(x *ssa.BinOp, a, b *Term, reach *Term) *Term {
	isFloat := false
	isString := false
	if bt, ok := x.X.Type().Underlying().(*types.Basic); ok {
		isFloat = bt.Info()&types.IsFloat != 0
		isString = bt.Info()&types.IsString != 0
	}
	switch x.Op {
	case token.ADD:
		if isString {
			return App("strcat", SInt, a, b)
		}
		return Add(a, b)
	case token.SUB:
		return Sub(a, b)
	case token.MUL:
		return Mul(a, b)
	case token.QUO:
		if isFloat {
			return RDiv(a, b)
		}
		ex.safe("div", reach, Neq(b, IntLit(0)), ex.posStr(x))
		return IDivTrunc(a, b)
	case token.REM:
		ex.safe("div", reach, Neq(b, IntLit(0)), ex.posStr(x))
		return IRemTrunc(a, b)
	case token.EQL:
		return Eq(a, b)
	case token.NEQ:
		return Neq(a, b)
	case token.LSS:
		return Lt(a, b)
	case token.LEQ:
		return Le(a, b)
	case token.GTR:
		return Gt(a, b)
	case token.GEQ:
		return Ge(a, b)
	case token.AND, token.OR, token.XOR, token.SHL, token.SHR, token.AND_NOT:
		if a.S == SBool {
			switch x.Op {
			case token.AND:
				return And(a, b)
			case token.OR:
				return Or(a, b)
			}
		}
		return App("bit"+x.Op.String(), SInt, a, b)
	}
	ex.fail("unsupported binop %s", x.Op)
	return nil
}

func (ex *Exec) convert(fr *Frame, x *ssa.Convert) *Val {
	xv := ex.value(fr, x.X)
	from := x.X.Type().Underlying()
	to := x.Type().Underlying()
	fb, fok := from.(*types.Basic)
	tb, tok := to.(*types.Basic)
	if fok && tok {
		fInt := fb.Info()&types.IsInteger != 0
		tInt := tb.Info()&types.IsInteger != 0
		fFl := fb.Info()&types.IsFloat != 0
		tFl := tb.Info()&types.IsFloat != 0
		switch {
		case fInt && tInt:
			return xv // width changes not modelled (listed assumption)
		case fInt && tFl:
			return &Val{T: ToReal(xv.T)}
		case fFl && tFl:
			return xv // float32 rounding not modelled (listed assumption)
		case fFl && tInt:
			return &Val{T: App("trunc", SInt, xv.T)}
		case fb.Kind() == types.UnsafePointer && tInt:
			return &Val{T: App("ptr2int", SInt, ex.termOf(xv))}
		case tb.Info()&types.IsString != 0:
			return &Val{T: Fresh("str", SInt)}
		}
	}
	if tok && tb.Kind() == types.UnsafePointer {
		return &Val{T: ex.termOf(xv)}
	}
	if _, ok := to.(*types.Slice); ok {
		if fok && fb.Info()&types.IsString != 0 {
			return &Val{T: Fresh("bytes", SSlice)}
		}
	}
	ex.fail("unsupported conversion %s -> %s", x.X.Type(), x.Type())
	return nil
}

func (ex *Exec) sliceOp(fr *Frame, x *ssa.Slice, st *State, reach *Term) {
	xv := ex.value(fr, x.X)
	var base, off, ln, cp *Term
	switch t := x.X.Type().Underlying().(type) {
	case *types.Slice:
		sl := xv.T
		base, off, ln, cp = Acc("sbase", sl), Acc("soff", sl), Acc("slen", sl), Acc("scap", sl)
	case *types.Pointer:
		at := t.Elem().Underlying().(*types.Array)
		l := ex.locOf(xv, x.X.Type())
		base, off, ln, cp = l.Ref, l.Idx, IntLit(at.Len()), IntLit(at.Len())
	default:
		ex.fail("slice of %s", x.X.Type())
	}
	lo := IntLit(0)
	if x.Low != nil {
		lo = ex.value(fr, x.Low).T
	}
	hi := ln
	if x.High != nil {
		hi = ex.value(fr, x.High).T
	}
	mx := cp
	if x.Max != nil {
		mx = ex.value(fr, x.Max).T
	}
	ex.safe("slice", reach, And(Le(IntLit(0), lo), Le(lo, hi), Le(hi, mx), Le(mx, cp)), ex.posStr(x))
	fr.vals[x] = &Val{T: MkSlice(base, Add(off, lo), Sub(hi, lo), Sub(mx, lo))}
}
