package main

// Bounded symbolic interpreter (DESIGN §2.5, "govc bounded").
//
// Interprets the real go/ssa of the library from a harness function (Go source under /verif/bounded,
// injected into the package with a go/packages overlay), with everything structural concrete (ints,
// pointers, slices, maps, dynamic types, control flow) and every float64/float32 a symbolic real term.
// Branches on symbolic comparisons are explored by re-execution with a decision prefix (all paths).
// Harness intrinsics: govcSym(name) float64, govcAssume(bool), govcCheckEq(name, a, b), govcCheck(name, bool),
// govcNote(string). Each check becomes an obligation  path condition ==> goal  (z3, then sympy).
// Results are BOUNDED (fixed sizes), never reported as proved.

import (
	"fmt"
	"go/constant"
	"go/token"
	"go/types"
	"sort"

	"golang.org/x/tools/go/ssa"
)

type bcell struct{ v interface{} }

type bptr struct{ c *bcell }

type bstruct struct {
	typ    types.Type
	fields []*bcell
}

type barray struct{ cells []*bcell }

type bslice struct {
	arr           *barray
	off, len, cap int
}

type bmap struct {
	keys []interface{} // insertion order kept for determinism; iteration uses sorted order
	m    map[string]interface{}
	kv   map[string]interface{}
}

type biface struct {
	typ types.Type
	v   interface{}
}

type bclosure struct {
	fn   *ssa.Function
	free []interface{}
}

type btype struct{ t types.Type } // reflect.Type

type btuple []interface{}

type bmapiter struct {
	m    *bmap
	keys []string
	pos  int
}

type bsymPanic struct {
	msg string
}

type bsymStop struct{ reason string } // abort this path (assumption violated / unsupported)

type bcheck struct {
	name string
	pc   []*Term
	goal *Term
}

type bsym struct {
	V         *Verifier
	globals   map[*ssa.Global]*bcell
	decisions []bool // prescribed outcomes of symbolic branches
	taken     []bool
	pc        []*Term
	checks    []bcheck
	notes     []string
	steps     int
	maxSteps  int
	symCount  int
	depth     int
	inited    map[*ssa.Package]bool
	curInstr  ssa.Instruction
}

func (b *bsym) fail(format string, a ...interface{}) {
	panic(bsymStop{fmt.Sprintf(format, a...)})
}

func keyString(k interface{}) string {
	switch x := k.(type) {
	case int64:
		return fmt.Sprintf("i%d", x)
	case string:
		return "s" + x
	case bool:
		return fmt.Sprintf("b%v", x)
	case *btype:
		return "t" + x.t.String()
	case *biface:
		return "I" + x.typ.String() + ":" + keyString(x.v)
	case *Term:
		return "r" + x.String()
	case *bptr:
		return fmt.Sprintf("p%p", x.c)
	case nil:
		return "nil"
	}
	return fmt.Sprintf("?%v", k)
}

func (b *bsym) zero(t types.Type) interface{} {
	switch u := t.Underlying().(type) {
	case *types.Basic:
		switch {
		case u.Info()&types.IsBoolean != 0:
			return false
		case u.Info()&types.IsInteger != 0:
			return int64(0)
		case u.Info()&types.IsFloat != 0:
			return RealOfInt(0)
		case u.Info()&types.IsString != 0:
			return ""
		}
		return nil
	case *types.Struct:
		s := &bstruct{typ: t}
		for i := 0; i < u.NumFields(); i++ {
			s.fields = append(s.fields, &bcell{b.zero(u.Field(i).Type())})
		}
		return s
	case *types.Array:
		a := &barray{}
		for i := int64(0); i < u.Len(); i++ {
			a.cells = append(a.cells, &bcell{b.zero(u.Elem())})
		}
		return a
	}
	return nil // pointers, slices, maps, interfaces, funcs, chans
}

func copyVal(v interface{}) interface{} {
	switch x := v.(type) {
	case *bstruct:
		n := &bstruct{typ: x.typ}
		for _, f := range x.fields {
			n.fields = append(n.fields, &bcell{copyVal(f.v)})
		}
		return n
	case *barray:
		n := &barray{}
		for _, c := range x.cells {
			n.cells = append(n.cells, &bcell{copyVal(c.v)})
		}
		return n
	}
	return v
}

type bframe struct {
	fn   *ssa.Function
	vals map[ssa.Value]interface{}
	free []interface{}
}

func (b *bsym) get(fr *bframe, v ssa.Value) interface{} {
	switch x := v.(type) {
	case *ssa.Const:
		return b.constVal(x)
	case *ssa.Global:
		c, ok := b.globals[x]
		if !ok {
			c = &bcell{b.zero(x.Type().(*types.Pointer).Elem())}
			b.globals[x] = c
		}
		return &bptr{c}
	case *ssa.Function:
		return &bclosure{fn: x}
	case *ssa.FreeVar:
		for i, fv := range fr.fn.FreeVars {
			if fv == x {
				return fr.free[i]
			}
		}
	case *ssa.Builtin:
		return x
	}
	if r, ok := fr.vals[v]; ok {
		return r
	}
	b.fail("bsym: value %s undefined in %s", v.Name(), fr.fn)
	return nil
}

func (b *bsym) constVal(c *ssa.Const) interface{} {
	if c.Value == nil {
		return b.zero(c.Type())
	}
	switch c.Value.Kind() {
	case constant.Bool:
		return constant.BoolVal(c.Value)
	case constant.String:
		return constant.StringVal(c.Value)
	case constant.Int:
		if bt, ok := c.Type().Underlying().(*types.Basic); ok && bt.Info()&types.IsFloat != 0 {
			t, _ := b.V.constTerm(c)
			return t
		}
		i, _ := constant.Int64Val(c.Value)
		return i
	case constant.Float:
		if bt, ok := c.Type().Underlying().(*types.Basic); ok && bt.Info()&types.IsInteger != 0 {
			i, _ := constant.Int64Val(constant.ToInt(c.Value))
			return i
		}
		t, _ := b.V.constTerm(c)
		return t
	}
	b.fail("bsym: constant %s", c)
	return nil
}

// decide resolves a branch condition; symbolic conditions consume / extend the decision vector.
func (b *bsym) decide(c interface{}) bool {
	switch x := c.(type) {
	case bool:
		return x
	case *Term:
		if x == True {
			return true
		}
		if x == False {
			return false
		}
		// forced by the path condition? (syntactically, else by the solver) -- not a branch then
		nx := Not(x)
		for _, p := range b.pc {
			if p == x {
				return true
			}
			if p == nx {
				return false
			}
		}
		if !b.feasible(x) {
			b.pc = append(b.pc, nx)
			return false
		}
		if !b.feasible(nx) {
			b.pc = append(b.pc, x)
			return true
		}
		k := len(b.taken)
		var d bool
		if k < len(b.decisions) {
			d = b.decisions[k]
		} else {
			d = true
		}
		b.taken = append(b.taken, d)
		if d {
			b.pc = append(b.pc, x)
		} else {
			b.pc = append(b.pc, Not(x))
		}
		return d
	}
	b.fail("bsym: branch on %T", c)
	return false
}

func (b *bsym) call(fn *ssa.Function, args []interface{}, free []interface{}) interface{} {
	if r, ok := b.intrinsic(fn, args); ok {
		return r
	}
	if fn.Blocks == nil || !b.inRepo(fn) {
		return b.extern(fn, args)
	}
	b.depth++
	if b.depth > 200 {
		b.fail("bsym: call depth")
	}
	defer func() { b.depth-- }()
	fr := &bframe{fn: fn, vals: map[ssa.Value]interface{}{}, free: free}
	for i, p := range fn.Params {
		fr.vals[p] = args[i]
	}
	blk := fn.Blocks[0]
	var prev *ssa.BasicBlock
	for {
		var next *ssa.BasicBlock
		for _, in := range blk.Instrs {
			b.steps++
			b.curInstr = in
			if b.steps > b.maxSteps {
				b.fail("bsym: step limit")
			}
			switch x := in.(type) {
			case *ssa.Phi:
				for i, p := range blk.Preds {
					if p == prev {
						fr.vals[x] = b.get(fr, x.Edges[i])
					}
				}
			case *ssa.If:
				if b.decide(b.get(fr, x.Cond)) {
					next = blk.Succs[0]
				} else {
					next = blk.Succs[1]
				}
			case *ssa.Jump:
				next = blk.Succs[0]
			case *ssa.Return:
				switch len(x.Results) {
				case 0:
					return nil
				case 1:
					return b.get(fr, x.Results[0])
				}
				var t btuple
				for _, r := range x.Results {
					t = append(t, b.get(fr, r))
				}
				return t
			case *ssa.Panic:
				panic(bsymPanic{fmt.Sprint(b.show(b.get(fr, x.X)))})
			default:
				b.instr(fr, in)
			}
			if next != nil {
				break
			}
		}
		if next == nil {
			b.fail("bsym: fell off block")
		}
		prev, blk = blk, next
	}
}

func (b *bsym) show(v interface{}) string {
	switch x := v.(type) {
	case *biface:
		return b.show(x.v)
	case string:
		return x
	case nil:
		return "nil"
	}
	return fmt.Sprintf("%v", v)
}

func (b *bsym) instr(fr *bframe, in ssa.Instruction) {
	switch x := in.(type) {
	case *ssa.DebugRef, *ssa.RunDefers:
	case *ssa.Alloc:
		fr.vals[x] = &bptr{&bcell{b.zero(x.Type().(*types.Pointer).Elem())}}
	case *ssa.FieldAddr:
		p := b.get(fr, x.X).(*bptr)
		if p == nil || p.c == nil {
			panic(bsymPanic{"nil pointer dereference"})
		}
		fr.vals[x] = &bptr{p.c.v.(*bstruct).fields[x.Field]}
	case *ssa.Field:
		fr.vals[x] = b.get(fr, x.X).(*bstruct).fields[x.Field].v
	case *ssa.IndexAddr:
		base := b.get(fr, x.X)
		i := int(b.get(fr, x.Index).(int64))
		switch s := base.(type) {
		case *bslice:
			if s == nil || i < 0 || i >= s.len {
				panic(bsymPanic{"index out of range"})
			}
			fr.vals[x] = &bptr{s.arr.cells[s.off+i]}
		case *bptr:
			a := s.c.v.(*barray)
			if i < 0 || i >= len(a.cells) {
				panic(bsymPanic{"index out of range"})
			}
			fr.vals[x] = &bptr{a.cells[i]}
		case nil:
			panic(bsymPanic{"index out of range (nil slice)"})
		default:
			b.fail("bsym: IndexAddr on %T", base)
		}
	case *ssa.Index:
		a := b.get(fr, x.X).(*barray)
		fr.vals[x] = a.cells[int(b.get(fr, x.Index).(int64))].v
	case *ssa.UnOp:
		v := b.get(fr, x.X)
		switch x.Op {
		case token.MUL:
			p, _ := v.(*bptr)
			if p == nil || p.c == nil {
				panic(bsymPanic{"nil pointer dereference"})
			}
			fr.vals[x] = copyVal(p.c.v)
		case token.SUB:
			switch y := v.(type) {
			case int64:
				fr.vals[x] = -y
			case *Term:
				fr.vals[x] = Neg(y)
			}
		case token.NOT:
			switch y := v.(type) {
			case bool:
				fr.vals[x] = !y
			case *Term:
				fr.vals[x] = Not(y)
			}
		default:
			b.fail("bsym: unop %s", x.Op)
		}
	case *ssa.BinOp:
		fr.vals[x] = b.binop(x.Op, b.get(fr, x.X), b.get(fr, x.Y), x.X.Type())
	case *ssa.Store:
		p, _ := b.get(fr, x.Addr).(*bptr)
		if p == nil || p.c == nil {
			panic(bsymPanic{"nil pointer dereference"})
		}
		p.c.v = copyVal(b.get(fr, x.Val))
	case *ssa.Call:
		fr.vals[x] = b.callInstr(fr, &x.Call)
	case *ssa.MakeClosure:
		var free []interface{}
		for _, f := range x.Bindings {
			free = append(free, b.get(fr, f))
		}
		fr.vals[x] = &bclosure{fn: x.Fn.(*ssa.Function), free: free}
	case *ssa.MakeInterface:
		fr.vals[x] = &biface{typ: x.X.Type(), v: b.get(fr, x.X)}
	case *ssa.ChangeInterface:
		fr.vals[x] = b.get(fr, x.X)
	case *ssa.ChangeType:
		fr.vals[x] = b.get(fr, x.X)
	case *ssa.Convert:
		fr.vals[x] = b.convert(b.get(fr, x.X), x.X.Type(), x.Type())
	case *ssa.TypeAssert:
		v := b.get(fr, x.X)
		ifv, _ := v.(*biface)
		ok := false
		var res interface{}
		if ifv != nil {
			if _, isIface := x.AssertedType.Underlying().(*types.Interface); isIface {
				ok = types.Implements(ifv.typ, x.AssertedType.Underlying().(*types.Interface))
				res = ifv
			} else {
				ok = types.Identical(ifv.typ, x.AssertedType)
				if ok {
					res = ifv.v
				}
			}
		}
		if x.CommaOk {
			if !ok {
				res = b.zero(x.AssertedType)
				if _, isIface := x.AssertedType.Underlying().(*types.Interface); isIface {
					res = (*biface)(nil)
				}
			}
			fr.vals[x] = btuple{res, ok}
		} else {
			if !ok {
				panic(bsymPanic{"interface conversion failed"})
			}
			fr.vals[x] = res
		}
	case *ssa.Extract:
		fr.vals[x] = b.get(fr, x.Tuple).(btuple)[x.Index]
	case *ssa.MakeSlice:
		n := int(b.get(fr, x.Len).(int64))
		c := int(b.get(fr, x.Cap).(int64))
		if n < 0 || c < n {
			panic(bsymPanic{"makeslice: len out of range"})
		}
		a := &barray{}
		et := x.Type().Underlying().(*types.Slice).Elem()
		for i := 0; i < c; i++ {
			a.cells = append(a.cells, &bcell{b.zero(et)})
		}
		fr.vals[x] = &bslice{a, 0, n, c}
	case *ssa.MakeMap:
		fr.vals[x] = &bmap{m: map[string]interface{}{}, kv: map[string]interface{}{}}
	case *ssa.Slice:
		fr.vals[x] = b.sliceOp(fr, x)
	case *ssa.Lookup:
		m, _ := b.get(fr, x.X).(*bmap)
		k := b.get(fr, x.Index)
		var v interface{}
		ok := false
		if m != nil {
			v, ok = m.m[keyString(k)]
		}
		if !ok {
			v = b.zero(x.X.Type().Underlying().(*types.Map).Elem())
		}
		if x.CommaOk {
			fr.vals[x] = btuple{copyVal(v), ok}
		} else {
			fr.vals[x] = copyVal(v)
		}
	case *ssa.MapUpdate:
		m := b.get(fr, x.Map).(*bmap)
		k := b.get(fr, x.Key)
		ks := keyString(k)
		if _, ok := m.m[ks]; !ok {
			m.keys = append(m.keys, k)
		}
		m.m[ks] = copyVal(b.get(fr, x.Value))
		m.kv[ks] = k
	case *ssa.Range:
		m, _ := b.get(fr, x.X).(*bmap)
		it := &bmapiter{m: m}
		if m != nil {
			for ks := range m.m {
				it.keys = append(it.keys, ks)
			}
			sort.Slice(it.keys, func(i, j int) bool {
				a, c := m.kv[it.keys[i]], m.kv[it.keys[j]]
				if ai, ok := a.(int64); ok {
					return ai < c.(int64)
				}
				return it.keys[i] < it.keys[j]
			})
		}
		fr.vals[x] = it
	case *ssa.Next:
		it := b.get(fr, x.Iter).(*bmapiter)
		for it.pos < len(it.keys) {
			ks := it.keys[it.pos]
			it.pos++
			if v, ok := it.m.m[ks]; ok {
				fr.vals[x] = btuple{true, it.m.kv[ks], copyVal(v)}
				return
			}
		}
		fr.vals[x] = btuple{false, nil, nil}
	default:
		b.fail("bsym: unsupported instruction %T in %s", in, fr.fn)
	}
}

func (b *bsym) sliceOp(fr *bframe, x *ssa.Slice) interface{} {
	base := b.get(fr, x.X)
	var arr *barray
	off, ln, cp := 0, 0, 0
	switch s := base.(type) {
	case *bslice:
		if s != nil {
			arr, off, ln, cp = s.arr, s.off, s.len, s.cap
		}
	case *bptr:
		arr = s.c.v.(*barray)
		ln, cp = len(arr.cells), len(arr.cells)
	case string:
		lo, hi := 0, len(s)
		if x.Low != nil {
			lo = int(b.get(fr, x.Low).(int64))
		}
		if x.High != nil {
			hi = int(b.get(fr, x.High).(int64))
		}
		return s[lo:hi]
	case nil:
	default:
		b.fail("bsym: slice of %T", base)
	}
	lo, hi, mx := 0, ln, cp
	if x.Low != nil {
		lo = int(b.get(fr, x.Low).(int64))
	}
	if x.High != nil {
		hi = int(b.get(fr, x.High).(int64))
	}
	if x.Max != nil {
		mx = int(b.get(fr, x.Max).(int64))
	}
	if lo < 0 || lo > hi || hi > mx || mx > cp {
		panic(bsymPanic{"slice bounds out of range"})
	}
	if arr == nil {
		return (*bslice)(nil)
	}
	return &bslice{arr, off + lo, hi - lo, mx - lo}
}

func (b *bsym) binop(op token.Token, x, y interface{}, t types.Type) interface{} {
	switch a := x.(type) {
	case int64:
		c := y.(int64)
		switch op {
		case token.ADD:
			return a + c
		case token.SUB:
			return a - c
		case token.MUL:
			return a * c
		case token.QUO:
			if c == 0 {
				panic(bsymPanic{"integer divide by zero"})
			}
			return a / c
		case token.REM:
			if c == 0 {
				panic(bsymPanic{"integer divide by zero"})
			}
			return a % c
		case token.EQL:
			return a == c
		case token.NEQ:
			return a != c
		case token.LSS:
			return a < c
		case token.LEQ:
			return a <= c
		case token.GTR:
			return a > c
		case token.GEQ:
			return a >= c
		case token.AND:
			return a & c
		case token.OR:
			return a | c
		case token.XOR:
			return a ^ c
		case token.SHL:
			return a << uint(c)
		case token.SHR:
			return a >> uint(c)
		case token.AND_NOT:
			return a &^ c
		}
	case *Term:
		c, ok := y.(*Term)
		if !ok {
			b.fail("bsym: mixed binop")
		}
		if a.S == SBool {
			switch op {
			case token.EQL:
				return Eq(a, c)
			case token.NEQ:
				return Neq(a, c)
			case token.AND:
				return And(a, c)
			case token.OR:
				return Or(a, c)
			}
		}
		switch op {
		case token.ADD:
			return Add(a, c)
		case token.SUB:
			return Sub(a, c)
		case token.MUL:
			return Mul(a, c)
		case token.QUO:
			return RDiv(a, c)
		case token.EQL, token.NEQ, token.LSS, token.LEQ, token.GTR, token.GEQ:
			// comparisons against the symbolic infinities (math.Inf): every other real is finite
			if r, ok := infCompare(op, a, c); ok {
				return r
			}
		}
		switch op {
		case token.EQL:
			return simplifyBool(Eq(a, c))
		case token.NEQ:
			return simplifyBool(Neq(a, c))
		case token.LSS:
			return simplifyBool(Lt(a, c))
		case token.LEQ:
			return simplifyBool(Le(a, c))
		case token.GTR:
			return simplifyBool(Gt(a, c))
		case token.GEQ:
			return simplifyBool(Ge(a, c))
		}
	case bool:
		c, isB := y.(bool)
		if !isB {
			if ct, ok := y.(*Term); ok {
				return b.binop(op, BoolLit(a), ct, t)
			}
		}
		switch op {
		case token.EQL:
			return a == c
		case token.NEQ:
			return a != c
		case token.AND:
			return a && c
		case token.OR:
			return a || c
		}
	case string:
		c := y.(string)
		switch op {
		case token.ADD:
			return a + c
		case token.EQL:
			return a == c
		case token.NEQ:
			return a != c
		case token.LSS:
			return a < c
		}
	}
	// identity comparisons (pointers, interfaces, nil)
	switch op {
	case token.EQL:
		return b.same(x, y)
	case token.NEQ:
		return !b.same(x, y)
	}
	b.fail("bsym: binop %s on %T, %T", op, x, y)
	return nil
}

func simplifyBool(t *Term) interface{} {
	if t == True {
		return true
	}
	if t == False {
		return false
	}
	return t
}

func isNilVal(v interface{}) bool {
	switch x := v.(type) {
	case nil:
		return true
	case *bptr:
		return x == nil || x.c == nil
	case *bslice:
		return x == nil
	case *bmap:
		return x == nil
	case *biface:
		return x == nil
	case *bclosure:
		return x == nil
	}
	return false
}

func (b *bsym) same(x, y interface{}) bool {
	if isNilVal(x) || isNilVal(y) {
		return isNilVal(x) && isNilVal(y)
	}
	switch a := x.(type) {
	case *bptr:
		c, ok := y.(*bptr)
		return ok && a.c == c.c
	case *biface:
		c, ok := y.(*biface)
		if !ok || !types.Identical(a.typ, c.typ) {
			return false
		}
		return b.valEq(a.v, c.v)
	case *btype:
		c, ok := y.(*btype)
		return ok && types.Identical(a.t, c.t)
	case *bmap:
		return x == y
	}
	return b.valEq(x, y)
}

func (b *bsym) valEq(x, y interface{}) bool {
	switch a := x.(type) {
	case int64, string, bool:
		return x == y
	case *Term:
		c, ok := y.(*Term)
		if !ok {
			return false
		}
		e := Eq(a, c)
		if e == True {
			return true
		}
		if e == False {
			return false
		}
		return b.decide(e)
	case *bptr:
		c, ok := y.(*bptr)
		return ok && a.c == c.c
	case *bstruct:
		c, ok := y.(*bstruct)
		if !ok || len(a.fields) != len(c.fields) {
			return false
		}
		for i := range a.fields {
			if !b.same(a.fields[i].v, c.fields[i].v) {
				return false
			}
		}
		return true
	case *btype:
		c, ok := y.(*btype)
		return ok && types.Identical(a.t, c.t)
	case *biface:
		return b.same(x, y)
	}
	return x == y
}

func (b *bsym) convert(v interface{}, from, to types.Type) interface{} {
	fb, _ := from.Underlying().(*types.Basic)
	tb, _ := to.Underlying().(*types.Basic)
	if fb != nil && tb != nil {
		fI, tI := fb.Info()&types.IsInteger != 0, tb.Info()&types.IsInteger != 0
		fF, tF := fb.Info()&types.IsFloat != 0, tb.Info()&types.IsFloat != 0
		switch {
		case fI && tI:
			return v
		case fI && tF:
			return RealOfInt(v.(int64))
		case fF && tF:
			return v
		case fF && tI:
			t := v.(*Term)
			if t.IsRealLit() && t.RatVal().IsInt() {
				return t.RatVal().Num().Int64()
			}
			b.fail("bsym: float->int conversion of a symbolic value")
		case tb.Info()&types.IsString != 0 && fI:
			return string(rune(v.(int64)))
		case tb.Kind() == types.UnsafePointer || fb.Kind() == types.UnsafePointer:
			return v
		}
	}
	if tb != nil && tb.Kind() == types.UnsafePointer {
		return v
	}
	if fb != nil && fb.Kind() == types.UnsafePointer {
		return v
	}
	return v
}

func (b *bsym) callInstr(fr *bframe, cc *ssa.CallCommon) interface{} {
	var args []interface{}
	if cc.IsInvoke() {
		recv, _ := b.get(fr, cc.Value).(*biface)
		if recv == nil {
			panic(bsymPanic{"invoke on nil interface"})
		}
		m := b.V.prog.LookupMethod(recv.typ, cc.Method.Pkg(), cc.Method.Name())
		if m == nil {
			b.fail("bsym: no method %s on %s", cc.Method.Name(), recv.typ)
		}
		args = append(args, recv.v)
		for _, a := range cc.Args {
			args = append(args, b.get(fr, a))
		}
		return b.call(m, args, nil)
	}
	for _, a := range cc.Args {
		args = append(args, b.get(fr, a))
	}
	switch callee := cc.Value.(type) {
	case *ssa.Builtin:
		return b.builtin(callee.Name(), args, cc)
	case *ssa.Function:
		return b.call(callee, args, nil)
	}
	f := b.get(fr, cc.Value)
	clo, _ := f.(*bclosure)
	if clo == nil {
		panic(bsymPanic{"call of nil function"})
	}
	return b.call(clo.fn, args, clo.free)
}

func (b *bsym) builtin(name string, args []interface{}, cc *ssa.CallCommon) interface{} {
	switch name {
	case "ssa:wrapnilchk":
		// wrapnilchk(ptr, recvType, methodName) returns ptr, panicking if it is nil
		if isNilVal(args[0]) {
			panic(bsymPanic{"value method called using nil pointer"})
		}
		return args[0]
	case "len":
		switch x := args[0].(type) {
		case *bslice:
			if x == nil {
				return int64(0)
			}
			return int64(x.len)
		case *bmap:
			if x == nil {
				return int64(0)
			}
			return int64(len(x.m))
		case string:
			return int64(len(x))
		case nil:
			return int64(0)
		case *barray:
			return int64(len(x.cells))
		}
	case "cap":
		if x, ok := args[0].(*bslice); ok && x != nil {
			return int64(x.cap)
		}
		return int64(0)
	case "append":
		dst, _ := args[0].(*bslice)
		src, _ := args[1].(*bslice)
		var srcVals []interface{}
		if src != nil {
			for i := 0; i < src.len; i++ {
				srcVals = append(srcVals, copyVal(src.arr.cells[src.off+i].v))
			}
		}
		if len(srcVals) == 0 {
			return dst
		}
		dl, dc := 0, 0
		if dst != nil {
			dl, dc = dst.len, dst.cap
		}
		if dst != nil && dl+len(srcVals) <= dc {
			for i, v := range srcVals {
				dst.arr.cells[dst.off+dl+i].v = v
			}
			return &bslice{dst.arr, dst.off, dl + len(srcVals), dc}
		}
		a := &barray{}
		for i := 0; i < dl; i++ {
			a.cells = append(a.cells, &bcell{copyVal(dst.arr.cells[dst.off+i].v)})
		}
		for _, v := range srcVals {
			a.cells = append(a.cells, &bcell{v})
		}
		return &bslice{a, 0, len(a.cells), len(a.cells)}
	case "copy":
		dst, _ := args[0].(*bslice)
		src, _ := args[1].(*bslice)
		n := 0
		if dst != nil && src != nil {
			n = dst.len
			if src.len < n {
				n = src.len
			}
			tmp := make([]interface{}, n)
			for i := 0; i < n; i++ {
				tmp[i] = copyVal(src.arr.cells[src.off+i].v)
			}
			for i := 0; i < n; i++ {
				dst.arr.cells[dst.off+i].v = tmp[i]
			}
		}
		return int64(n)
	case "delete":
		m, _ := args[0].(*bmap)
		if m != nil {
			delete(m.m, keyString(args[1]))
		}
		return nil
	case "print", "println":
		return nil
	}
	b.fail("bsym: builtin %s", name)
	return nil
}

// infCompare decides comparisons in which an operand is the symbolic +Inf / -Inf.
func infCompare(op token.Token, a, c *Term) (bool, bool) {
	rank := func(t *Term) int {
		switch t.Op {
		case "f:ninf":
			return -1
		case "f:pinf":
			return 1
		}
		return 0
	}
	ra, rc := rank(a), rank(c)
	if ra == 0 && rc == 0 {
		return false, false
	}
	cmp := 0
	switch {
	case ra < rc:
		cmp = -1
	case ra > rc:
		cmp = 1
	}
	switch op {
	case token.EQL:
		return cmp == 0, true
	case token.NEQ:
		return cmp != 0, true
	case token.LSS:
		return cmp < 0, true
	case token.LEQ:
		return cmp <= 0, true
	case token.GTR:
		return cmp > 0, true
	case token.GEQ:
		return cmp >= 0, true
	}
	return false, false
}
