package main

import (
	"os/exec"
	"runtime/debug"
	"runtime/pprof"
	"go/types"
	"encoding/json"
	"flag"
	"fmt"
	"os"
	"path/filepath"
	"regexp"
	"sort"
	"strconv"
	"strings"
	"time"

	"golang.org/x/tools/go/packages"
	"golang.org/x/tools/go/ssa"
	"golang.org/x/tools/go/ssa/ssautil"
)

var repoDir = "/repo"
const contractFileName = "zz_contracts_verif.go"

func findContractDirs() []string {
	var dirs []string
	filepath.Walk(repoDir, func(p string, info os.FileInfo, err error) error {
		if err != nil {
			return nil
		}
		if info.IsDir() && (info.Name() == ".git" || info.Name() == "demo") {
			return filepath.SkipDir
		}
		if !info.IsDir() && info.Name() == contractFileName {
			dirs = append(dirs, filepath.Dir(p))
		}
		return nil
	})
	sort.Strings(dirs)
	return dirs
}

var loadOverlay map[string][]byte

func Load(opts Options, extraPatterns []string) (*Verifier, error) {
	dirs := findContractDirs()
	// packages that only carry bounded harnesses are loaded too
	for f := range loadOverlay {
		d := filepath.Dir(f)
		found := false
		for _, x := range dirs {
			if x == d {
				found = true
			}
		}
		if !found {
			dirs = append(dirs, d)
		}
	}
	sort.Strings(dirs)
	patterns := []string{"."}
	for _, d := range dirs {
		rel, _ := filepath.Rel(repoDir, d)
		if rel != "." {
			patterns = append(patterns, "./"+rel)
		}
	}
	patterns = append(patterns, extraPatterns...)
	cfg := &packages.Config{Mode: packages.LoadAllSyntax, Dir: repoDir, BuildFlags: []string{"-tags", "verif"}, Overlay: loadOverlay,
		Env: append(os.Environ(), "GOFLAGS=-mod=mod", "GOPROXY=off", "GOSUMDB=off", "GOTOOLCHAIN=local")}
	pkgs, err := packages.Load(cfg, patterns...)
	if err != nil {
		return nil, err
	}
	nerr := 0
	packages.Visit(pkgs, nil, func(p *packages.Package) {
		for _, e := range p.Errors {
			fmt.Fprintf(os.Stderr, "load error: %v\n", e)
			nerr++
		}
	})
	if nerr > 0 {
		return nil, fmt.Errorf("%d package load errors (the tree does not compile)", nerr)
	}
	prog, _ := ssautil.AllPackages(pkgs, ssa.InstantiateGenerics|ssa.GlobalDebug)
	prog.Build()
	V := &Verifier{prog: prog, spkgs: map[string]*ssa.Package{}, ppkgs: map[string]*packages.Package{}, rootPath: "github.com/pbenner/autodiff",
		byFunc: map[*ssa.Function]*Contract{}, byName: map[string]*Contract{}, funcs: map[string]*ssa.Function{}, structs: map[string]*structInfo{},
		strTab: map[string]int{}, opts: opts, anonName: map[string]string{}, compType: map[string]types.Type{}}
	packages.Visit(pkgs, nil, func(p *packages.Package) {
		V.ppkgs[p.PkgPath] = p
		if sp := prog.Package(p.Types); sp != nil {
			V.spkgs[p.PkgPath] = sp
		}
	})
	for fn := range ssautil.AllFunctions(prog) {
		if fn.Pkg == nil {
			continue
		}
		V.funcs[fn.Pkg.Pkg.Path()+"::"+relFuncName(fn)] = fn
	}
	V.cf = &ContractFile{Specs: map[string]*SpecFn{}}
	for _, d := range dirs {
		rel, _ := filepath.Rel(repoDir, d)
		pp := V.rootPath
		if rel != "." {
			pp = V.rootPath + "/" + filepath.ToSlash(rel)
		}
		files, _ := filepath.Glob(filepath.Join(d, "zz_contracts*_verif.go"))
		for _, f := range files {
			if err := ParseContractFile(f, pp, V.cf); err != nil {
				return nil, err
			}
		}
	}
	// bind
	for _, c := range V.cf.Contracts {
		for _, fname := range c.Funcs {
			if fn, ok := V.funcs[c.Pkg+"::"+fname]; ok {
				if _, dup := V.byFunc[fn]; dup {
					return nil, fmt.Errorf("%s:%d: duplicate contract for %s", c.File, c.Line, fname)
				}
				V.byFunc[fn] = c
				continue
			}
			// interface method?
			V.byName[fname] = c
		}
	}
	return V, nil
}

type target struct {
	fn   *ssa.Function
	con  *Contract
	name string
	miss bool
}

func (V *Verifier) targets(prop string) []target {
	var out []target
	for _, c := range V.cf.Contracts {
		if !hasProp(c.Props, prop) && !(V.opts.Tier == "thorough" && hasProp(c.Props, prop+"+")) {
			continue
		}
		if c.Trusted {
			continue
		}
		for _, fname := range c.Funcs {
			fn, ok := V.funcs[c.Pkg+"::"+fname]
			if !ok {
				if V.isIfaceMethod(c.Pkg, fname) {
					continue
				}
				out = append(out, target{nil, c, fname, true})
				continue
			}
			if bc := V.byFunc[fn]; bc != nil {
				out = append(out, target{fn, bc, fname, false})
				continue
			}
			out = append(out, target{fn, c, fname, false})
		}
	}
	return out
}

func (V *Verifier) isIfaceMethod(pkg, fname string) bool {
	k := strings.LastIndex(fname, ".")
	if k < 0 || strings.HasPrefix(fname, "(") {
		return false
	}
	pp := V.ppkgs[pkg]
	if pp == nil {
		return false
	}
	obj := pp.Types.Scope().Lookup(fname[:k])
	if obj == nil {
		return false
	}
	_, ok := obj.Type().Underlying().(interface{ NumMethods() int })
	return ok
}

func hasProp(ps []string, p string) bool {
	if p == "" || p == "all" {
		return true
	}
	for _, x := range ps {
		if x == p {
			return true
		}
	}
	return false
}

func main() {
	if len(os.Args) < 2 {
		fmt.Fprintln(os.Stderr, "usage: govc check|list ...")
		os.Exit(2)
	}
	switch os.Args[1] {
	case "check":
		os.Exit(cmdCheck(os.Args[2:]))
	case "ssa":
		cmdSSA(os.Args[2:])
	default:
		fmt.Fprintln(os.Stderr, "unknown command")
		os.Exit(2)
	}
}

func cmdSSA(args []string) {
	V, err := Load(Options{}, nil)
	if err != nil {
		fmt.Fprintln(os.Stderr, err)
		os.Exit(2)
	}
	for _, a := range args {
		for k, fn := range V.funcs {
			if strings.HasSuffix(k, "::"+a) {
				fn.WriteTo(os.Stdout)
				loops := findLoops(fn)
				for h, li := range loops {
					var ph []string
					for _, in := range h.Instrs {
						if p, ok := in.(*ssa.Phi); ok {
							ph = append(ph, p.Comment)
						}
					}
					fmt.Printf("loop %d: header block %d phis %v\n", li.ordinal, h.Index, ph)
				}
			}
		}
	}
}

func init() {
	if d := os.Getenv("GOVC_REPO"); d != "" {
		repoDir = d
	}
}

func cmdCheck(args []string) int {
	debug.SetGCPercent(600)
	if pf := os.Getenv("GOVC_PROF"); pf != "" {
		f, _ := os.Create(pf)
		pprof.StartCPUProfile(f)
		defer pprof.StopCPUProfile()
	}
	fs := flag.NewFlagSet("check", flag.ExitOnError)
	prop := fs.String("prop", "", "property id")
	tier := fs.String("tier", "quick", "quick|thorough")
	fre := fs.String("func", "", "only functions matching regexp")
	ore := fs.String("obl", "", "only obligations matching regexp")
	verbose := fs.Bool("v", false, "verbose")
	keep := fs.Bool("keep", false, "keep all smt2 files")
	timeout := fs.Int("timeout", 0, "seconds per obligation")
	noEvidence := fs.Bool("no-evidence", false, "do not write evidence")
	selRe := fs.String("select", "", "property-level obligation selection (regexp on obligation names); unlike --obl this is a complete run")
	writeExpected := fs.Bool("write-expected", false, "write expected/<prop>.obligations from this run (maintenance only)")
	verifDir := fs.String("verif", "/verif", "verif directory")
	fs.Parse(args)
	start := time.Now()
	seed := 0
	if s := os.Getenv("VERIF_SEED"); s != "" {
		seed, _ = strconv.Atoi(s)
	}
	opts := Options{Timeout: 20, Workers: 16, Seed: seed, Verbose: *verbose, InlineMax: 6, KeepSMT: *keep, Tier: *tier}
	if *tier == "thorough" {
		opts.Timeout = 60
	}
	if *timeout > 0 {
		opts.Timeout = *timeout
	}
	opts.WorkDir = filepath.Join(*verifDir, "work", *prop)
	os.RemoveAll(opts.WorkDir)
	os.MkdirAll(opts.WorkDir, 0755)
	if err := loadPrelude(filepath.Join(*verifDir, "spec", "prelude.smt2")); err != nil {
		fmt.Fprintln(os.Stderr, "prelude:", err)
		return 2
	}
	if err := loadOps(*verifDir); err != nil {
		fmt.Fprintln(os.Stderr, "ops table:", err)
		return 2
	}
	loadOverlay = boundedOverlays(*verifDir)
	V, err := Load(opts, nil)
	if err != nil {
		fmt.Fprintln(os.Stderr, "load:", err)
		return 2
	}
	loadT := time.Since(start).Seconds()
	var fre2, ore2 *regexp.Regexp
	if *fre != "" {
		fre2 = regexp.MustCompile(*fre)
	}
	if *ore != "" {
		ore2 = regexp.MustCompile(*ore)
	}
	var results []*FuncResult
	localsPath := filepath.Join(*verifDir, "expected", "locals.json")
	if !*writeExpected {
		for _, n := range V.applyRenames(localsPath) {
			fmt.Println("note: contract follows renamed locals/parameters of " + n)
		}
	}
	tg := V.targets(*prop)
	sort.Slice(tg, func(i, j int) bool { return tg[i].name < tg[j].name })
	for _, t := range tg {
		if fre2 != nil && !fre2.MatchString(t.name) {
			continue
		}
		if t.miss {
			results = append(results, &FuncResult{Name: t.name, Contract: t.con, Err: "contract target missing: " + t.name})
			continue
		}
		var r *FuncResult
		if t.con.IsJet {
			r = V.JetCheck(t.fn, t.con)
		} else {
			r = V.VerifyFunc(t.fn, t.con)
		}
		results = append(results, r)
	}
	for _, lm := range V.cf.Lemmas {
		if !hasProp(lm.Props, *prop) && !(*tier == "thorough" && hasProp(lm.Props, *prop+"+")) {
			continue
		}
		if fre2 != nil && !fre2.MatchString("lemma."+lm.Name) {
			continue
		}
		results = append(results, V.VerifyLemma(lm))
	}
	if *selRe == "" {
		// per-property selection from /verif/claims.json ("select")
		if data, err := os.ReadFile(filepath.Join(*verifDir, "claims.json")); err == nil {
			var cl map[string]map[string]interface{}
			if json.Unmarshal(data, &cl) == nil {
				if c, ok := cl[*prop]; ok {
					if sx, ok := c["select"].(string); ok {
						*selRe = sx
					}
				}
			}
		}
	}
	if *selRe != "" {
		sre := regexp.MustCompile(*selRe)
		for _, r := range results {
			var keep []*Obligation
			for _, o := range r.Obls {
				if sre.MatchString(o.Name) {
					keep = append(keep, o)
				}
			}
			r.Obls = keep
		}
	}
	var all []*Obligation
	for _, r := range results {
		for _, o := range r.Obls {
			if ore2 != nil && !ore2.MatchString(o.Name) {
				o.Status = "skipped"
				continue
			}
			all = append(all, o)
		}
	}
	genT := time.Since(start).Seconds() - loadT
	V.SolveAll(all)
	if *writeExpected {
		var names []string
		for _, r := range results {
			for _, o := range r.Obls {
				// only obligations that exist independently of the shape of the code (postconditions, call-site
				// coefficient checks, lemmas, loop invariants of annotated loops): their absence means a contract
				// lost its target, which must not pass silently
				keyKind := o.Kind == "post" || o.Kind == "post.err" || o.Kind == "site" || o.Kind == "lemma" || o.Kind == "panics.must" || o.Kind == "inv.init" || o.Kind == "inv.keep"
				if o.Status == "proved" && keyKind && !o.Cover {
					names = append(names, o.Name)
				}
			}
		}
		sort.Strings(names)
		os.MkdirAll(filepath.Join(*verifDir, "expected"), 0755)
		os.WriteFile(filepath.Join(*verifDir, "expected", *prop+"."+*tier+".obligations"), []byte(strings.Join(names, "\n")+"\n"), 0644)
		V.writeLocals(localsPath)
		if out, err := exec.Command("git", "-C", "/repo", "rev-parse", "HEAD").Output(); err == nil {
			os.WriteFile(filepath.Join(*verifDir, "reference_commit"), out, 0644)
		}
	}
	// bounded symbolic cases (claims.json "symbolic": [{"name": fn, "pkg": dir, "label": ...}])
	if fre2 == nil || true {
		for _, h := range loadSymbolic(*verifDir, *prop, *tier) {
			if fre2 != nil && !fre2.MatchString("bounded."+h.Name) {
				continue
			}
			r := V.RunBounded(h, 4000)
			results = append(results, r)
			for _, o := range r.Obls {
				if ore2 != nil && !ore2.MatchString(o.Name) {
					o.Status = "skipped"
					continue
				}
				all = append(all, o)
			}
		}
		V.SolveAll(all)
	}
	var bsum *BoundedSummary
	var bviols []string
	if fre2 == nil && ore2 == nil {
		rd := filepath.Join(*verifDir, "replay", *prop)
		os.MkdirAll(rd, 0755)
		bsum, bviols = runBounded(*verifDir, *prop, *tier, loadBounded(*verifDir, *prop), rd)
	}
	rep := &Report{V: V, Prop: *prop, Tier: *tier, Seed: seed, Results: results, Start: start, LoadT: loadT, GenT: genT, VerifDir: *verifDir, Partial: fre2 != nil || ore2 != nil, NoEvidence: *noEvidence, Bounded: bsum, Extra: map[string]interface{}{"violations": bviols}}
	return rep.Finish()
}

func jsonStr(v interface{}) string {
	b, _ := json.Marshal(v)
	return string(b)
}

type symbolicSpec struct {
	Name  string `json:"name"`
	Pkg   string `json:"pkg"`
	Label string `json:"label"`
	Tier  string `json:"tier"` // "" = both, "thorough" = thorough only
}

func loadSymbolic(verifDir, prop, tier string) []BoundedHarness {
	data, err := os.ReadFile(filepath.Join(verifDir, "claims.json"))
	if err != nil {
		return nil
	}
	var cl map[string]struct {
		Symbolic []symbolicSpec `json:"symbolic"`
	}
	if json.Unmarshal(data, &cl) != nil {
		return nil
	}
	var out []BoundedHarness
	for _, s := range cl[prop].Symbolic {
		if s.Tier == "thorough" && tier != "thorough" {
			continue
		}
		out = append(out, BoundedHarness{Name: s.Name, Pkg: s.Pkg, Label: s.Label})
	}
	return out
}
