package main

// Bounded-native stand-ins (DESIGN §2.5): exhaustive small-scope execution of the real code through an
// in-package test injected with `go test -overlay`. Results are always reported as *bounded*, never as proved.

import (
	"encoding/json"
	"fmt"
	"os"
	"os/exec"
	"path/filepath"
	"regexp"
	"strconv"
	"strings"
	"time"
)

type boundedSpec struct {
	Name string                       `json:"name"`
	Test string                       `json:"test"` // file under /verif
	Pkg  string                       `json:"pkg"`  // package dir relative to the repository root
	Run  string                       `json:"run"`
	Env  map[string]map[string]string `json:"env"` // tier -> environment
	Rule string                       `json:"rule"`
}

func loadBounded(verifDir, prop string) []boundedSpec {
	data, err := os.ReadFile(filepath.Join(verifDir, "claims.json"))
	if err != nil {
		return nil
	}
	var cl map[string]struct {
		Bounded []boundedSpec `json:"bounded"`
	}
	if json.Unmarshal(data, &cl) != nil {
		return nil
	}
	return cl[prop].Bounded
}

var boundedLine = regexp.MustCompile(`GOVC-BOUNDED cases=(\d+) (.*)`)

func runBounded(verifDir, prop, tier string, specs []boundedSpec, replayDir string) (*BoundedSummary, []string) {
	if len(specs) == 0 {
		return nil, nil
	}
	sum := &BoundedSummary{Exhaustive: true}
	var viols []string
	var rules, bounds []string
	for _, sp := range specs {
		src, err := os.ReadFile(filepath.Join(verifDir, sp.Test))
		if err != nil {
			viols = append(viols, fmt.Sprintf("VIOLATION property=%s replay=%s obligation=bounded.%s cannot read harness no-failing-input-found", prop, sp.Test, sp.Name))
			continue
		}
		tmp, _ := os.MkdirTemp("", "govc-bounded-")
		tf := filepath.Join(tmp, "zz_govc_bounded_test.go")
		os.WriteFile(tf, src, 0644)
		dir := filepath.Join(repoDir, sp.Pkg)
		ov := map[string]map[string]string{"Replace": {filepath.Join(dir, "zz_govc_bounded_test.go"): tf}}
		ob, _ := json.Marshal(ov)
		ovf := filepath.Join(tmp, "ov.json")
		os.WriteFile(ovf, ob, 0644)
		cmd := exec.Command("go", "test", "-overlay", ovf, "-vet=off", "-v", "-count=1", "-timeout", "20m", "-run", "^"+sp.Run+"$", ".")
		cmd.Dir = dir
		cmd.Env = append(os.Environ(), "GOFLAGS=-mod=mod", "GOPROXY=off", "GOSUMDB=off", "GOTOOLCHAIN=local")
		for k, v := range sp.Env[tier] {
			cmd.Env = append(cmd.Env, k+"="+v)
		}
		start := time.Now()
		out, _ := cmd.CombinedOutput()
		os.RemoveAll(tmp)
		el := time.Since(start).Seconds()
		found := false
		for _, l := range strings.Split(string(out), "\n") {
			if strings.HasPrefix(l, "GOVC-BOUNDED-VIOLATION") {
				sum.Failed++
				p := filepath.Join(replayDir, "bounded-"+sp.Name+".json")
				b, _ := json.MarshalIndent(map[string]interface{}{"obligation": "bounded." + sp.Name, "harness": sp.Test, "failing_case": l,
					"how_to_replay": fmt.Sprintf("copy %s into %s as a _test.go file and run go test -run %s", sp.Test, sp.Pkg, sp.Run)}, "", " ")
				os.WriteFile(p, b, 0644)
				viols = append(viols, fmt.Sprintf("VIOLATION property=%s replay=%s obligation=bounded.%s %s", prop, p, sp.Name, oneLine(truncate(l, 300))))
			}
			if m := boundedLine.FindStringSubmatch(l); m != nil {
				found = true
				n, _ := strconv.Atoi(m[1])
				sum.Cases += n
				bounds = append(bounds, sp.Name+": "+m[2])
				if !strings.Contains(m[2], "exhaustive=true") {
					sum.Exhaustive = false
				}
				if len(sum.Samples) < 4 {
					sum.Samples = append(sum.Samples, map[string]interface{}{"harness": sp.Name, "summary": l, "wall_s": round2(el)})
				}
			}
		}
		if !found {
			sum.Exhaustive = false
			p := filepath.Join(replayDir, "bounded-"+sp.Name+".json")
			b, _ := json.MarshalIndent(map[string]interface{}{"obligation": "bounded." + sp.Name, "output": truncate(string(out), 3000)}, "", " ")
			os.WriteFile(p, b, 0644)
			viols = append(viols, fmt.Sprintf("VIOLATION property=%s replay=%s obligation=bounded.%s harness did not complete no-failing-input-found", prop, p, sp.Name))
		}
		rules = append(rules, sp.Rule)
	}
	sum.Rule = strings.Join(rules, "; ")
	sum.Bound = strings.Join(bounds, "; ")
	return sum, viols
}
