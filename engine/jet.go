package main

// Jet-level deductive check of scalar programs (composite operations, log-densities).
//
// The chain-rule combinators are proved pointwise for every index pair (contracts of monadic/dyadic):
// slot i of the gradient of the result depends only on slot i of the operands, slot (i,j) of the Hessian
// only on slots i, j, (i,j). A straight-line scalar program built from primitive operations is therefore
// correct for ALL N iff it is correct on the symbolic "jet element" (v, d, e, h) = (value, D[i], D[j],
// H[i][j]) of each operand. jetcheck symbolically executes the real SSA of such a function over cells
// holding jet elements: each primitive operation acts by its coefficient triple from /verif/spec/ops.json
// (the same table the primitives' own code is verified against), Set/Reset/SetFloat64 by their proved
// contracts, getters and comparisons by the interface model functions. Every path through the function
// yields obligations  path-condition ==> result jet == jet of the function the operation is named after,
// discharged in nonlinear real arithmetic with exp/log axiom instances.

import (
	"encoding/json"
	"fmt"
	"go/constant"
	"go/token"
	"go/types"
	"os"
	"path/filepath"
	"sort"
	"strings"

	"golang.org/x/tools/go/ssa"
)

type opSpec struct {
	Arity int               `json:"arity"`
	E     map[string]string `json:"e"` // f, f1, f2  |  f, fx, fy, fxx, fxy, fyy
	exprs map[string]*Expr
}

var opsTable map[string]*opSpec

func loadOps(verifDir string) error {
	data, err := os.ReadFile(filepath.Join(verifDir, "spec", "ops.json"))
	if err != nil {
		return err
	}
	opsTable = map[string]*opSpec{}
	if err := json.Unmarshal(data, &opsTable); err != nil {
		return err
	}
	for n, o := range opsTable {
		o.exprs = map[string]*Expr{}
		for k, s := range o.E {
			e, err := ParseExpr(s)
			if err != nil {
				return fmt.Errorf("ops.json %s.%s: %v", n, k, err)
			}
			o.exprs[k] = e
		}
	}
	return nil
}

type jcell struct {
	id         int
	name       string
	v, d, e, h *Term
	order      *Term // symbolic derivative order of the scalar (0 => d,e,h are 0)
	isConst    bool
}

type jval struct {
	t     *Term  // plain value (float/int/bool)
	cell  *jcell // scalar reference
	tup   []*jval
	obj   string // symbolic object path (struct pointers whose fields hold scalars)
	faddr string // address of a field slot (object path + "." + field)
	ftype types.Type
	isNil bool
	isErr bool // a non-nil error value
}

type jpath struct {
	pc       []*Term
	cells    map[int]*jcell // current contents (copy on write per path)
	binds    map[string]*jval // field slot -> value stored on this path
	ret      []*jval
	panicked bool
}

type jetExec struct {
	V      *Verifier
	fn     *ssa.Function
	con    *Contract
	name   string
	nextID int
	facts  []*Term // global facts (order==0 => zero slots, ...)
	paths  []*jpath
	fields map[string]*jcell
	err    string
	maxPaths int
	newObjs []string
	depth  int
}

type jetFail struct{ msg string }

func (je *jetExec) fail(format string, a ...interface{}) { panic(jetFail{fmt.Sprintf(format, a...)}) }

func (je *jetExec) newCell(name string, symbolic bool) *jcell {
	je.nextID++
	c := &jcell{id: je.nextID, name: name}
	if symbolic {
		c.v = Const("jv:"+name, SReal)
		c.d = Const("jd:"+name, SReal)
		c.e = Const("je:"+name, SReal)
		c.h = Const("jh:"+name, SReal)
		c.order = Const("jo:"+name, SInt)
		zero := RealOfInt(0)
		je.facts = append(je.facts, And(Le(IntLit(0), c.order), Le(c.order, IntLit(2))))
		je.facts = append(je.facts, Implies(Lt(c.order, IntLit(1)), And(Eq(c.d, zero), Eq(c.e, zero))))
		je.facts = append(je.facts, Implies(Lt(c.order, IntLit(2)), Eq(c.h, zero)))
	}
	return c
}

func constCell(je *jetExec, v *Term) *jcell {
	je.nextID++
	z := RealOfInt(0)
	return &jcell{id: je.nextID, name: "const", v: v, d: z, e: z, h: z, order: IntLit(0), isConst: true}
}

func (p *jpath) clone() *jpath {
	n := &jpath{pc: append([]*Term{}, p.pc...), cells: map[int]*jcell{}, binds: map[string]*jval{}}
	for k, v := range p.binds {
		n.binds[k] = v
	}
	for k, c := range p.cells {
		cc := *c
		n.cells[k] = &cc
	}
	return n
}

// cur returns the path-local content of a cell.
func (p *jpath) cur(c *jcell) *jcell {
	if x, ok := p.cells[c.id]; ok {
		return x
	}
	cc := *c
	p.cells[c.id] = &cc
	return &cc
}

func isScalarType(t types.Type) bool {
	n := types.TypeString(t, func(*types.Package) string { return "" })
	switch n {
	case "ConstScalar", "Scalar", "MagicScalar", "*Real64", "*Real32", "Float64", "Float32", "ConstFloat64", "ConstFloat32",
		"Int", "Int8", "Int16", "Int32", "Int64", "ConstInt", "ConstInt8", "ConstInt16", "ConstInt32", "ConstInt64":
		return true
	}
	return false
}

func (je *jetExec) evalSpec(e *Expr, vars map[string]*Term) *Term {
	ex := &Exec{V: je.V, fn: je.fn, counters: map[string]int{}, initHeap: map[string]*Term{}, allComps: map[string]*Sort{}, params: map[string]*Val{}}
	cv := map[string]*CVal{}
	for k, v := range vars {
		cv[k] = &CVal{T: v}
	}
	env := &CEnv{ex: ex, vars: cv, st: &State{heap: map[string]*Term{}, alloc: IntLit(1)}, pkg: je.fn.Pkg.Pkg}
	r, err := env.Eval(e)
	if err != nil {
		je.fail("spec expression %q: %v", e.Src, err)
	}
	return ToReal(r.T)
}

// applyOp updates the receiver cell with primitive op applied to argument cells (contents read first).
func (je *jetExec) applyOp(p *jpath, op *opSpec, recv *jcell, args []*jcell, extra map[string]*Term) {
	if op.Arity == 1 {
		a := *p.cur(args[0])
		vars := map[string]*Term{"x": a.v}
		for k, v := range extra {
			vars[k] = v
		}
		f := je.evalSpec(op.exprs["f"], vars)
		f1 := je.evalSpec(op.exprs["f1"], vars)
		f2 := je.evalSpec(op.exprs["f2"], vars)
		r := p.cur(recv)
		r.v = f
		r.d = Mul(a.d, f1)
		r.e = Mul(a.e, f1)
		r.h = Add(Mul(Mul(a.d, a.e), f2), Mul(a.h, f1))
		r.order = a.order
		return
	}
	a := *p.cur(args[0])
	b := *p.cur(args[1])
	vars := map[string]*Term{"x": a.v, "y": b.v}
	g := func(k string) *Term { return je.evalSpec(op.exprs[k], vars) }
	f, fx, fy, fxx, fxy, fyy := g("f"), g("fx"), g("fy"), g("fxx"), g("fxy"), g("fyy")
	r := p.cur(recv)
	r.v = f
	r.d = Add(Mul(a.d, fx), Mul(b.d, fy))
	r.e = Add(Mul(a.e, fx), Mul(b.e, fy))
	r.h = Add(Add(Add(Add(Add(Mul(a.h, fx), Mul(b.h, fy)), Mul(Mul(a.d, a.e), fxx)), Mul(Mul(b.d, b.e), fyy)), Mul(Mul(a.d, b.e), fxy)), Mul(Mul(b.d, a.e), fxy))
	r.order = Ite(Ge(a.order, b.order), a.order, b.order)
}

// ---------------------------------------------------------------------------

type jframe struct {
	vals map[ssa.Value]*jval
}

func (je *jetExec) value(fr *jframe, v ssa.Value) *jval {
	switch x := v.(type) {
	case *ssa.Const:
		if x.Value == nil {
			return &jval{isNil: true}
		}
		switch x.Value.Kind() {
		case constant.Bool:
			return &jval{t: BoolLit(constant.BoolVal(x.Value))}
		case constant.Int, constant.Float:
			t, err := je.V.constTerm(x)
			if err != nil {
				je.fail("%v", err)
			}
			if isScalarType(x.Type()) {
				// constant of a Const* scalar type (e.g. ConstFloat64(1.0))
				return &jval{cell: constCell(je, ToReal(t))}
			}
			return &jval{t: t}
		case constant.String:
			return &jval{t: je.V.strToken(constant.StringVal(x.Value))}
		}
	}
	if r, ok := fr.vals[v]; ok {
		return r
	}
	je.fail("value %s (%T) unsupported in jet evaluation", v.Name(), v)
	return nil
}

func (je *jetExec) run(fr *jframe, b *ssa.BasicBlock, prev *ssa.BasicBlock, p *jpath, depth int) {
	if depth > 200 {
		je.fail("path too long (loop?)")
	}
	if len(je.paths) > je.maxPaths {
		je.fail("too many paths")
	}
	for _, in := range b.Instrs {
		switch x := in.(type) {
		case *ssa.Phi:
			idx := predIndex(b, prev)
			fr.vals[x] = je.value(fr, x.Edges[idx])
		case *ssa.DebugRef:
		case *ssa.If:
			c := je.value(fr, x.Cond).t
			if c == True {
				je.run(fr, b.Succs[0], b, p, depth+1)
				return
			}
			if c == False {
				je.run(fr, b.Succs[1], b, p, depth+1)
				return
			}
			p2 := p.clone()
			fr2 := &jframe{vals: map[ssa.Value]*jval{}}
			for k, v := range fr.vals {
				fr2.vals[k] = v
			}
			p.pc = append(p.pc, c)
			je.run(fr, b.Succs[0], b, p, depth+1)
			p2.pc = append(p2.pc, Not(c))
			je.run(fr2, b.Succs[1], b, p2, depth+1)
			return
		case *ssa.Jump:
			je.run(fr, b.Succs[0], b, p, depth+1)
			return
		case *ssa.Return:
			for _, r := range x.Results {
				p.ret = append(p.ret, je.value(fr, r))
			}
			je.paths = append(je.paths, p)
			return
		case *ssa.Panic:
			p.panicked = true
			je.paths = append(je.paths, p)
			return
		default:
			je.instr(fr, in, p)
		}
	}
}

func (je *jetExec) instr(fr *jframe, in ssa.Instruction, p *jpath) {
	switch x := in.(type) {
	case *ssa.MakeInterface:
		fr.vals[x] = je.value(fr, x.X)
	case *ssa.ChangeInterface:
		fr.vals[x] = je.value(fr, x.X)
	case *ssa.ChangeType:
		fr.vals[x] = je.value(fr, x.X)
	case *ssa.Convert:
		v := je.value(fr, x.X)
		if v.t != nil {
			fb, _ := x.X.Type().Underlying().(*types.Basic)
			tb, _ := x.Type().Underlying().(*types.Basic)
			if fb != nil && tb != nil && fb.Info()&types.IsInteger != 0 && tb.Info()&types.IsFloat != 0 {
				if isScalarType(x.Type()) {
					fr.vals[x] = &jval{cell: constCell(je, ToReal(v.t))}
					return
				}
				fr.vals[x] = &jval{t: ToReal(v.t)}
				return
			}
			if isScalarType(x.Type()) && v.t.S == SReal {
				fr.vals[x] = &jval{cell: constCell(je, v.t)}
				return
			}
		}
		fr.vals[x] = v
	case *ssa.UnOp:
		v := je.value(fr, x.X)
		switch x.Op {
		case token.SUB:
			fr.vals[x] = &jval{t: Neg(v.t)}
		case token.NOT:
			fr.vals[x] = &jval{t: Not(v.t)}
		case token.MUL:
			if v.faddr != "" {
				fr.vals[x] = je.loadField(p, v)
			} else {
				fr.vals[x] = v
			}
		default:
			je.fail("unop %s", x.Op)
		}
	case *ssa.BinOp:
		a := je.value(fr, x.X)
		b := je.value(fr, x.Y)
		if a.cell != nil || b.cell != nil || a.isNil || b.isNil {
			// comparison of scalar references / nil
			eq := false
			if a.isNil && b.isNil {
				eq = true
			} else if a.cell != nil && b.cell != nil {
				eq = a.cell.id == b.cell.id
			}
			switch x.Op {
			case token.EQL:
				fr.vals[x] = &jval{t: BoolLit(eq)}
			case token.NEQ:
				fr.vals[x] = &jval{t: BoolLit(!eq)}
			default:
				je.fail("binop on scalar refs")
			}
			return
		}
		isFloat := false
		if bt, ok := x.X.Type().Underlying().(*types.Basic); ok {
			isFloat = bt.Info()&types.IsFloat != 0
		}
		var t *Term
		switch x.Op {
		case token.ADD:
			t = Add(a.t, b.t)
		case token.SUB:
			t = Sub(a.t, b.t)
		case token.MUL:
			t = Mul(a.t, b.t)
		case token.QUO:
			if isFloat {
				t = RDiv(a.t, b.t)
			} else {
				t = IDivTrunc(a.t, b.t)
			}
		case token.EQL:
			t = Eq(a.t, b.t)
		case token.NEQ:
			t = Neq(a.t, b.t)
		case token.LSS:
			t = Lt(a.t, b.t)
		case token.LEQ:
			t = Le(a.t, b.t)
		case token.GTR:
			t = Gt(a.t, b.t)
		case token.GEQ:
			t = Ge(a.t, b.t)
		case token.LAND, token.AND:
			t = And(a.t, b.t)
		case token.LOR, token.OR:
			t = Or(a.t, b.t)
		default:
			je.fail("binop %s", x.Op)
		}
		fr.vals[x] = &jval{t: t}
	case *ssa.FieldAddr:
		base := je.value(fr, x.X)
		st := x.X.Type().Underlying().(*types.Pointer).Elem().Underlying().(*types.Struct)
		if base.obj == "" {
			je.fail("field of an unknown object")
		}
		fr.vals[x] = &jval{faddr: base.obj + "." + st.Field(x.Field).Name(), ftype: st.Field(x.Field).Type()}
	case *ssa.Alloc:
		et := x.Type().(*types.Pointer).Elem()
		if _, ok := et.Underlying().(*types.Struct); ok {
			je.nextID++
			fr.vals[x] = &jval{obj: fmt.Sprintf("new%d", je.nextID)}
			je.newObjs = append(je.newObjs, fr.vals[x].obj)
		} else {
			je.nextID++
			fr.vals[x] = &jval{faddr: fmt.Sprintf("local%d", je.nextID), ftype: et}
		}
	case *ssa.Store:
		av := je.value(fr, x.Addr)
		if av.faddr == "" {
			je.fail("store through a non-field address")
		}
		p.binds[av.faddr] = je.value(fr, x.Val)
	case *ssa.IndexAddr:
		base := je.value(fr, x.X)
		if base.faddr == "" {
			je.fail("index into unknown storage")
		}
		et := x.Type().(*types.Pointer).Elem()
		fr.vals[x] = &jval{faddr: fmt.Sprintf("%s[%s]", base.faddr, je.value(fr, x.Index).t.String()), ftype: et}
	case *ssa.Slice:
		fr.vals[x] = &jval{t: Fresh("opaque", SInt)}
	case *ssa.Extract:
		tv := je.value(fr, x.Tuple)
		if tv.tup == nil {
			je.fail("extract of non-tuple")
		}
		fr.vals[x] = tv.tup[x.Index]
	case *ssa.Call:
		fr.vals[x] = je.call(fr, x, p)
	case *ssa.TypeAssert:
		v := je.value(fr, x.X)
		if x.CommaOk {
			// dynamic type unknown in the jet abstraction: both outcomes are explored by the caller's branch
			ok := Fresh("ta", SBool)
			fr.vals[x] = &jval{tup: []*jval{v, {t: ok}}}
		} else {
			fr.vals[x] = v
		}
	case *ssa.RunDefers:
	default:
		je.fail("unsupported instruction %T in jet evaluation of %s", in, je.name)
	}
}

func (je *jetExec) cellArg(fr *jframe, v ssa.Value) *jcell {
	jv := je.value(fr, v)
	if jv.cell == nil {
		je.fail("argument %s is not a scalar reference", v.Name())
	}
	return jv.cell
}

func (je *jetExec) call(fr *jframe, x *ssa.Call, p *jpath) *jval {
	cc := &x.Call
	name := ""
	var recvV ssa.Value
	var argVs []ssa.Value
	if cc.IsInvoke() {
		name = cc.Method.Name()
		recvV = cc.Value
		argVs = cc.Args
	} else if fn, ok := cc.Value.(*ssa.Function); ok {
		name = fn.Name()
		if fn.Signature.Recv() != nil {
			recvV = cc.Args[0]
			argVs = cc.Args[1:]
		} else {
			argVs = cc.Args
			return je.callFunc(fr, x, fn, argVs, p)
		}
	} else {
		je.fail("call through function value")
	}
	rv := je.value(fr, recvV)
	if rv.cell == nil {
		if fn, ok := cc.Value.(*ssa.Function); ok && len(fn.Blocks) > 0 {
			return je.inlineCall(fr, fn, cc.Args, p)
		}
		je.fail("method %s on a non-scalar receiver", name)
	}
	recv := rv.cell
	up := strings.ToUpper(name)
	// primitive (or summarised composite) operation?
	for key, op := range opsTable {
		if key == name || strings.ToUpper(key) == name && up == name {
			var cells []*jcell
			extra := map[string]*Term{}
			k := 0
			for _, a := range argVs {
				av := je.value(fr, a)
				if av.cell != nil {
					if k < op.Arity {
						cells = append(cells, av.cell)
					}
					k++
				} else if av.t != nil {
					extra[fmt.Sprintf("p%d", len(extra))] = ToReal(av.t)
				}
			}
			if len(cells) != op.Arity {
				je.fail("operation %s: %d scalar operands, want %d", name, len(cells), op.Arity)
			}
			je.applyOp(p, op, recv, cells, extra)
			return &jval{cell: recv}
		}
	}
	switch name {
	case "CloneScalar", "CloneConstScalar", "CloneMagicScalar", "Clone":
		src := *p.cur(recv)
		je.nextID++
		nc := &jcell{id: je.nextID, name: fmt.Sprintf("clone%d", je.nextID), v: src.v, d: src.d, e: src.e, h: src.h, order: src.order}
		return &jval{cell: nc}
	case "Type", "String":
		return &jval{t: Fresh("opaque", SInt)}
	case "GetFloat64", "GetFloat32":
		return &jval{t: p.cur(recv).v}
	case "GetOrder":
		return &jval{t: p.cur(recv).order}
	case "Set", "SET":
		src := *p.cur(je.cellArg(fr, argVs[0]))
		r := p.cur(recv)
		r.v, r.d, r.e, r.h, r.order = src.v, src.d, src.e, src.h, src.order
		return &jval{}
	case "Reset":
		r := p.cur(recv)
		z := RealOfInt(0)
		r.v, r.d, r.e, r.h = z, z, z, z
		return &jval{}
	case "SetFloat64", "SetFloat32":
		v := je.value(fr, argVs[0])
		r := p.cur(recv)
		z := RealOfInt(0)
		r.v, r.d, r.e, r.h = ToReal(v.t), z, z, z
		return &jval{}
	case "Sign", "SIGN":
		v := p.cur(recv).v
		z := RealOfInt(0)
		return &jval{t: Ite(Lt(v, z), IntLit(-1), Ite(Gt(v, z), IntLit(1), IntLit(0)))}
	case "Greater", "GREATER":
		return &jval{t: Gt(p.cur(recv).v, p.cur(je.cellArg(fr, argVs[0])).v)}
	case "Smaller", "SMALLER":
		return &jval{t: Lt(p.cur(recv).v, p.cur(je.cellArg(fr, argVs[0])).v)}
	}
	je.fail("method %s has no jet semantics", name)
	return nil
}

func (je *jetExec) callFunc(fr *jframe, x *ssa.Call, fn *ssa.Function, argVs []ssa.Value, p *jpath) *jval {
	pkg := ""
	if fn.Pkg != nil {
		pkg = fn.Pkg.Pkg.Path()
	}
	if pkg == "math" {
		var ts []*Term
		for _, a := range argVs {
			ts = append(ts, je.value(fr, a).t)
		}
		switch fn.Name() {
		case "IsInf", "IsNaN":
			// operands are finite reals in this model (listed assumption)
			return &jval{t: False}
		case "Inf":
			return &jval{t: Ite(Ge(ts[0], IntLit(0)), App("pinf", SReal), App("ninf", SReal))}
		case "Abs":
			return &jval{t: Ite(Ge(ts[0], RealOfInt(0)), ts[0], Neg(ts[0]))}
		case "Pow":
			return &jval{t: PowTerm(ts[0], ts[1])}
		}
		return &jval{t: App(strings.ToLower(fn.Name()), SReal, ts...)}
	}
	switch fn.Name() {
	case "NewReal64", "NewReal32", "NewFloat64", "NewFloat32":
		v := je.value(fr, argVs[0])
		return &jval{cell: constCell(je, ToReal(v.t))}
	case "NullReal64", "NullReal32", "NullFloat64", "NullFloat32":
		return &jval{cell: constCell(je, RealOfInt(0))}
	}
	switch fn.Name() {
	case "NewScalar", "NewConstScalar", "NewMagicScalar":
		v := je.value(fr, argVs[1])
		return &jval{cell: constCell(je, ToReal(v.t))}
	case "NullScalar":
		return &jval{cell: constCell(je, RealOfInt(0))}
	}
	if pkg == "fmt" || pkg == "errors" {
		return &jval{isErr: true}
	}
	if len(fn.Blocks) > 0 {
		return je.inlineCall(fr, fn, argVs, p)
	}
	je.fail("call of %s has no jet semantics", fn.String())
	return nil
}

// inlineCall executes a loop-free static callee in place (single return path required per caller path).
func (je *jetExec) inlineCall(fr *jframe, fn *ssa.Function, argVs []ssa.Value, p *jpath) *jval {
	if je.depth > 4 {
		je.fail("inline depth exceeded at %s", fn.Name())
	}
	nf := &jframe{vals: map[ssa.Value]*jval{}}
	for i, prm := range fn.Params {
		nf.vals[prm] = je.value(fr, argVs[i])
	}
	// run the callee on a private path list; it must not fork (callers handle branching themselves)
	saved := je.paths
	je.paths = nil
	je.depth++
	je.run(nf, fn.Blocks[0], nil, p, 0)
	je.depth--
	got := je.paths
	je.paths = saved
	if len(got) != 1 || got[0] != p {
		je.fail("inlined callee %s branches on symbolic data", fn.Name())
	}
	ret := p.ret
	p.ret = nil
	switch len(ret) {
	case 0:
		return &jval{}
	case 1:
		return ret[0]
	}
	return &jval{tup: ret}
}

func (je *jetExec) loadField(p *jpath, a *jval) *jval {
	if v, ok := p.binds[a.faddr]; ok {
		return v
	}
	ft := a.ftype
	if isScalarType(ft) {
		c, ok := je.fields[a.faddr]
		if !ok {
			c = je.newCell(a.faddr, true)
			je.fields[a.faddr] = c
		}
		return &jval{cell: c}
	}
	if _, ok := ft.Underlying().(*types.Struct); ok {
		return &jval{obj: a.faddr}
	}
	if pt, ok := ft.Underlying().(*types.Pointer); ok {
		if _, ok := pt.Elem().Underlying().(*types.Struct); ok {
			return &jval{obj: a.faddr}
		}
	}
	if _, ok := ft.Underlying().(*types.Interface); ok {
		return &jval{t: Const("jf:"+a.faddr, SIface)}
	}
	return &jval{t: Const("jf:"+a.faddr, je.V.sortOf(ft))}
}

// ---------------------------------------------------------------------------

type jetAlias struct {
	name  string
	merge map[string]string // param name -> representative param name
}

// JetCheck generates the obligations of one function with a `jetspec` clause.
func (V *Verifier) JetCheck(fn *ssa.Function, con *Contract) *FuncResult {
	name := V.qualFuncName(fn)
	res := &FuncResult{Name: name, Func: fn, Contract: con}
	var specE *Expr
	var requires []*Expr
	aliasSpecs := []string{"none"}
	for _, cl := range con.Clauses {
		switch cl.Kind {
		case "jetspec":
			specE = cl.E
		case "jetrequires":
			requires = append(requires, cl.E)
		}
	}
	aliasSpecs = append(aliasSpecs, con.JetAlias...)
	_ = specE
	dummy := &Exec{V: V, fn: fn, name: name, counters: map[string]int{}, initHeap: map[string]*Term{}, allComps: map[string]*Sort{}, params: map[string]*Val{}, paramTyp: map[string]types.Type{}}
	res.Ex = dummy
	for _, as := range aliasSpecs {
		je := &jetExec{V: V, fn: fn, con: con, name: name, fields: map[string]*jcell{}, maxPaths: 64}
		func() {
			defer func() {
				if r := recover(); r != nil {
					if jf, ok := r.(jetFail); ok {
						res.Err = jf.msg
						return
					}
					if ce, ok := r.(cevalErr); ok {
						res.Err = ce.msg
						return
					}
					if u, ok := r.(unsupported); ok {
						res.Err = u.msg
						return
					}
					panic(r)
				}
			}()
			je.checkAlias(as, requires, res, dummy)
		}()
		if res.Err != "" {
			return res
		}
	}
	return res
}

func (je *jetExec) checkAlias(as string, requires []*Expr, res *FuncResult, dummy *Exec) {
	fn := je.fn
	// alias pattern "c=a": parameters sharing one cell
	rep := map[string]string{}
	if as != "none" {
		for _, grp := range strings.Split(as, ",") {
			ns := strings.Split(grp, "=")
			for _, n := range ns[1:] {
				rep[strings.TrimSpace(n)] = strings.TrimSpace(ns[0])
			}
		}
	}
	fr := &jframe{vals: map[ssa.Value]*jval{}}
	cells := map[string]*jcell{}
	var operands []string // ConstScalar-typed parameters in order: x, y
	recvName := ""
	for i, p := range fn.Params {
		n := p.Name()
		if isScalarType(p.Type()) {
			r := n
			if q, ok := rep[n]; ok {
				r = q
			}
			c, ok := cells[r]
			if !ok {
				c = je.newCell(r, true)
				cells[r] = c
			}
			cells[n] = c
			fr.vals[p] = &jval{cell: c}
			tn := types.TypeString(p.Type(), func(*types.Package) string { return "" })
			if i == 0 && fn.Signature.Recv() != nil {
				recvName = n
			} else if tn == "ConstScalar" || tn == "*Real64" && i > 0 || tn == "*Real32" && i > 0 || tn == "Float64" && i > 0 || tn == "Float32" && i > 0 {
				operands = append(operands, n)
			}
			continue
		}
		if pt, ok := p.Type().Underlying().(*types.Pointer); ok {
			if st, ok := pt.Elem().Underlying().(*types.Struct); ok {
				fr.vals[p] = &jval{obj: n}
				if i == 0 && fn.Signature.Recv() != nil {
					recvName = ""
				}
				for fi := 0; fi < st.NumFields(); fi++ {
					if isScalarType(st.Field(fi).Type()) {
						path := n + "." + st.Field(fi).Name()
						if _, ok := je.fields[path]; !ok {
							je.fields[path] = je.newCell(path, true)
						}
					}
				}
				continue
			}
		}
		// plain parameter
		s := je.V.sortOf(p.Type())
		fr.vals[p] = &jval{t: Const("jp:"+n, s)}
	}
	// the cell the specification speaks about: named by the contract, else the receiver
	target := recvName
	if je.con.JetResult != "" {
		target = je.con.JetResult
	}
	if len(je.con.JetOperands) > 0 {
		operands = je.con.JetOperands
	}
	initial := map[string]jcell{}
	for n, c := range cells {
		initial[n] = *c
	}
	p0 := &jpath{cells: map[int]*jcell{}, binds: map[string]*jval{}}
	je.run(fr, fn.Blocks[0], nil, p0, 0)
	// spec variables: initial values of parameter cells (by name and as x, y, ...), of object fields
	// (obj_Field) and plain parameters
	vars := map[string]*Term{}
	var opCells []jcell
	for k, on := range operands {
		var c jcell
		if ic, ok := initial[on]; ok {
			c = ic
		} else if fc, ok := je.fields[strings.ReplaceAll(on, "_", ".")]; ok {
			c = *fc
		} else {
			nc := je.newCell(on, true)
			c = *nc
		}
		opCells = append(opCells, c)
		vn := []string{"x", "y", "z", "w", "u"}[k]
		vars[vn] = c.v
	}
	for n, ic := range initial {
		vars[n] = ic.v
	}
	for _, p := range fn.Params {
		if jv := fr.vals[p]; jv != nil && jv.t != nil {
			vars[p.Name()] = jv.t
		}
	}
	for path, fc := range je.fields {
		vars[strings.ReplaceAll(path, ".", "_")] = fc.v
	}
	evalB := func(e *Expr, vs map[string]*Term) *Term {
		ex := &Exec{V: je.V, fn: fn, counters: map[string]int{}, initHeap: map[string]*Term{}, allComps: map[string]*Sort{}, params: map[string]*Val{}}
		cv := map[string]*CVal{}
		for k, v := range vs {
			cv[k] = &CVal{T: v}
		}
		env := &CEnv{ex: ex, vars: cv, st: &State{heap: map[string]*Term{}, alloc: IntLit(1)}, pkg: fn.Pkg.Pkg}
		v, err := env.Eval(e)
		if err != nil {
			je.fail("%s: %v", e.Src, err)
		}
		return v.T
	}
	var reqT []*Term
	for _, r := range requires {
		reqT = append(reqT, evalB(r, vars))
	}
	var F, support, errWhen *Term
	var ensures []*Clause
	d1 := map[string]*Term{}
	d2 := map[string]*Term{}
	for _, cl := range je.con.Clauses {
		switch cl.Kind {
		case "jetspec":
			F = je.evalSpec(cl.E, vars)
		case "jetsupport":
			support = evalB(cl.E, vars)
		case "jeterrors_when":
			errWhen = evalB(cl.E, vars)
		case "jetensures":
			ensures = append(ensures, cl)
		case "jetd":
			t := je.evalSpec(cl.E, vars)
			if len(cl.Name) == 2 {
				d1[cl.Name[1:]] = t
			} else {
				d2[cl.Name[1:]] = t
			}
		}
	}
	valueOnly := je.con.JetValueOnly
	vn := []string{"x", "y", "z", "w", "u"}
	expD, expE, expH := RealOfInt(0), RealOfInt(0), RealOfInt(0)
	if F != nil && !valueOnly {
		for k, c := range opCells {
			fk := d1[vn[k]]
			if fk == nil {
				je.fail("missing first derivative jetd d%s", vn[k])
			}
			expD = Add(expD, Mul(c.d, fk))
			expE = Add(expE, Mul(c.e, fk))
			expH = Add(expH, Mul(c.h, fk))
		}
		for k, c := range opCells {
			for l, c2 := range opCells {
				key := vn[k] + vn[l]
				if l < k {
					key = vn[l] + vn[k]
				}
				fkl := d2[key]
				if fkl == nil {
					je.fail("missing second derivative jetd d%s", key)
				}
				expH = Add(expH, Mul(Mul(c.d, c2.e), fkl))
			}
		}
	}
	_ = expE
	if len(je.paths) == 0 {
		je.fail("no path reaches a return")
	}
	results := fn.Signature.Results()
	lastIsErr := results.Len() > 0 && types.TypeString(results.At(results.Len()-1).Type(), nil) == "error"
	for pi, p := range je.paths {
		if p.panicked {
			continue
		}
		hyp := append([]*Term{}, je.facts...)
		hyp = append(hyp, reqT...)
		hyp = append(hyp, p.pc...)
		mk := func(kind string, goal *Term, src string) {
			o := &Obligation{Name: fmt.Sprintf("%s#jet.%s.alias=%s.path%d", je.name, kind, strings.ReplaceAll(as, ",", "+"), pi+1), Kind: "jet", Func: je.name,
				Goal: goal, Reach: And(hyp...), Ex: dummy, Src: src, JetHyp: hyp}
			res.Obls = append(res.Obls, o)
		}
		retErr := false
		if lastIsErr && len(p.ret) > 0 {
			retErr = p.ret[len(p.ret)-1].isErr
		}
		if errWhen != nil {
			if retErr {
				mk("errors", errWhen, "an error is returned only when: "+oneLine(errWhen.String()))
			} else {
				mk("errors", Not(errWhen), "no error is returned only when the error condition is false")
			}
		}
		// final values visible to jetensures: post_<param>, post_result<k>_<Field>
		post := map[string]*Term{}
		for k, v := range vars {
			post[k] = v
		}
		for n, c0 := range cells {
			post["post_"+n] = p.cur(c0).v
		}
		for path, fc := range je.fields {
			post["post_"+strings.ReplaceAll(path, ".", "_")] = p.cur(fc).v
		}
		for k, rv := range p.ret {
			if rv.obj != "" {
				for slot, bv := range p.binds {
					if strings.HasPrefix(slot, rv.obj+".") && bv.cell != nil {
						post[fmt.Sprintf("post_result%d_%s", k, strings.TrimPrefix(slot, rv.obj+"."))] = p.cur(bv.cell).v
					}
				}
			}
			if rv.cell != nil {
				post[fmt.Sprintf("post_result%d", k)] = p.cur(rv.cell).v
			}
		}
		if !retErr {
			for k, cl := range ensures {
				mk(fmt.Sprintf("ensures%d", k+1), evalB(cl.E, post), cl.Src)
			}
		}
		if F == nil || retErr {
			continue
		}
		var tc *jcell
		if target != "" {
			if c0, ok := cells[target]; ok {
				tc = p.cur(c0)
			}
		}
		if tc == nil && len(p.ret) > 0 && p.ret[0].cell != nil {
			tc = p.cur(p.ret[0].cell)
		}
		if tc == nil {
			je.fail("cannot identify the result cell")
		}
		if support != nil {
			mk("value", Implies(support, Eq(tc.v, F)), "on the support: value == "+oneLine(F.String()))
			mk("support", Implies(Not(support), Eq(tc.v, App("ninf", SReal))), "outside the support the log-density is -Inf")
		} else {
			mk("value", Eq(tc.v, F), "value == named function")
		}
		if !valueOnly {
			mk("d1", Eq(tc.d, expD), "gradient slot == chain rule of the named function")
			mk("d2", Eq(tc.h, expH), "Hessian slot == second-order chain rule of the named function")
		}
		// operands that are not aliased with the result keep their jets
		var names []string
		for n := range initial {
			names = append(names, n)
		}
		sort.Strings(names)
		for _, n := range names {
			ic := initial[n]
			isOperand := false
			for _, on := range operands {
				if on == n {
					isOperand = true
				}
			}
			if !isOperand || (cells[target] != nil && cells[n].id == cells[target].id) {
				continue
			}
			cur := p.cur(cells[n])
			mk("unchanged."+n, And(Eq(cur.v, ic.v), Eq(cur.d, ic.d), Eq(cur.h, ic.h)), "operand "+n+" is left unchanged")
		}
		// object fields (distribution parameters) are never modified
		var fps []string
		for path := range je.fields {
			fps = append(fps, path)
		}
		sort.Strings(fps)
		for _, path := range fps {
			fc := je.fields[path]
			cur := p.cur(fc)
			if scratchField(path) {
				continue
			}
			if cur.v != fc.v || cur.d != fc.d || cur.h != fc.h {
				mk("unchanged."+strings.ReplaceAll(path, ".", "_"), And(Eq(cur.v, fc.v), Eq(cur.d, fc.d), Eq(cur.h, fc.h)), "parameter "+path+" is left unchanged")
			}
		}
	}
}

// scratchField: unexported fields named t, t1, t2, ... are documented scratch scalars of a distribution.
func scratchField(path string) bool {
	k := strings.LastIndex(path, ".")
	n := path[k+1:]
	if n == "" || n[0] != 't' {
		return false
	}
	for _, r := range n[1:] {
		if r < '0' || r > '9' {
			return false
		}
	}
	return true
}
