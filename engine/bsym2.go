package main

import (
	"time"
	"sync"
	"context"
	"fmt"
	"go/types"
	"os"
	"runtime/debug"
	"path/filepath"
	"sort"
	"strings"

	"golang.org/x/tools/go/ssa"
)

func (b *bsym) inRepo(fn *ssa.Function) bool {
	if fn.Pkg != nil {
		return strings.HasPrefix(fn.Pkg.Pkg.Path(), b.V.rootPath)
	}
	// synthetic wrappers (pointer-receiver wrappers of value methods, bound methods, thunks)
	// have no package: decide by the wrapped method
	if fn.Synthetic != "" {
		if o := fn.Object(); o != nil && o.Pkg() != nil {
			return strings.HasPrefix(o.Pkg().Path(), b.V.rootPath)
		}
		if fn.Signature != nil && fn.Signature.Recv() != nil {
			t := fn.Signature.Recv().Type()
			if p, ok := t.(*types.Pointer); ok {
				t = p.Elem()
			}
			if n, ok := t.(*types.Named); ok && n.Obj().Pkg() != nil {
				return strings.HasPrefix(n.Obj().Pkg().Path(), b.V.rootPath)
			}
		}
	}
	return false
}

func (b *bsym) intrinsic(fn *ssa.Function, args []interface{}) (interface{}, bool) {
	if fn.Name() == "init" && !b.inRepo(fn) {
		return nil, true
	}
	if fn.Pkg != nil && strings.HasSuffix(fn.Pkg.Pkg.Path(), "/special") {
		var ts []*Term
		for _, a := range args {
			switch x := a.(type) {
			case *Term:
				ts = append(ts, x)
			case int64:
				ts = append(ts, RealOfInt(x))
			default:
				b.fail("bsym: special.%s with %T argument", fn.Name(), a)
			}
		}
		return App(strings.ToLower(fn.Name()), SReal, ts...), true
	}
	switch fn.Name() {
	case "govcSym":
		b.symCount++
		return Const("sym:"+args[0].(string), SReal), true
	case "govcAssume":
		switch c := args[0].(type) {
		case bool:
			if !c {
				panic(bsymStop{"assumption false on this path"})
			}
		case *Term:
			b.pc = append(b.pc, c)
		}
		return nil, true
	case "govcCheckEq":
		x, y := args[1].(*Term), args[2].(*Term)
		b.checks = append(b.checks, bcheck{args[0].(string), append([]*Term{}, b.pc...), Eq(x, y)})
		return nil, true
	case "govcCheck":
		var g *Term
		switch c := args[1].(type) {
		case bool:
			g = BoolLit(c)
		case *Term:
			g = c
		}
		b.checks = append(b.checks, bcheck{args[0].(string), append([]*Term{}, b.pc...), g})
		return nil, true
	case "govcNote":
		b.notes = append(b.notes, args[0].(string))
		return nil, true
	}
	return nil, false
}

func (b *bsym) fmtArgs(v interface{}) []interface{} {
	sl, _ := v.(*bslice)
	var out []interface{}
	if sl == nil {
		return out
	}
	for i := 0; i < sl.len; i++ {
		e := sl.arr.cells[sl.off+i].v
		if ifv, ok := e.(*biface); ok && ifv != nil {
			e = ifv.v
		}
		switch x := e.(type) {
		case int64:
			out = append(out, int(x))
		case *Term:
			out = append(out, x.String())
		case *btype:
			out = append(out, x.t.String())
		case string, bool:
			out = append(out, x)
		case float64:
			out = append(out, x)
		case *bslice:
			// slices of basic values print like Go's %v
			var parts []interface{}
			okAll := true
			if x != nil {
				for k := 0; k < x.len; k++ {
					switch y := x.arr.cells[x.off+k].v.(type) {
					case int64:
						parts = append(parts, int(y))
					case float64, string, bool:
						parts = append(parts, y)
					case *Term:
						parts = append(parts, y.String())
					default:
						okAll = false
					}
				}
			}
			if okAll {
				out = append(out, parts)
			} else {
				out = append(out, fmt.Sprintf("%T", e))
			}
		default:
			out = append(out, fmt.Sprintf("%T", e))
		}
	}
	return out
}

var errType = types.Universe.Lookup("error").Type()

func (b *bsym) extern(fn *ssa.Function, args []interface{}) interface{} {
	pkg := ""
	if fn.Pkg != nil {
		pkg = fn.Pkg.Pkg.Path()
	}
	name := fn.Name()
	switch pkg {
	case "math":
		var ts []*Term
		for _, a := range args {
			if t, ok := a.(*Term); ok {
				ts = append(ts, t)
			}
		}
		z := RealOfInt(0)
		switch name {
		case "Abs":
			if ts[0].IsRealLit() {
				if ts[0].RatVal().Sign() < 0 {
					return Neg(ts[0])
				}
				return ts[0]
			}
			return Ite(Ge(ts[0], z), ts[0], Neg(ts[0]))
		case "IsNaN":
			return false
		case "IsInf":
			if len(ts) > 0 {
				sign, _ := args[1].(int64)
				switch ts[0].Op {
				case "f:pinf":
					return sign >= 0
				case "f:ninf":
					return sign <= 0
				}
			}
			return false
		case "Inf":
			if args[0].(int64) >= 0 {
				return App("pinf", SReal)
			}
			return App("ninf", SReal)
		case "NaN":
			return App("nan", SReal)
		case "Log":
			if len(ts) == 1 && ts[0].IsRealLit() && ts[0].RatVal().Sign() == 0 {
				return App("ninf", SReal)
			}
		case "Exp":
			if len(ts) == 1 && ts[0].Op == "f:ninf" {
				return RealOfInt(0)
			}
		case "Pow":
			return PowTerm(ts[0], ts[1])
		case "Sqrt":
			return App("sqrt", SReal, ts[0])
		case "Max":
			return Ite(Ge(ts[0], ts[1]), ts[0], ts[1])
		case "Min":
			return Ite(Le(ts[0], ts[1]), ts[0], ts[1])
		case "Signbit":
			return simplifyBool(Lt(ts[0], z))
		case "Copysign":
			return Ite(Ge(ts[1], z), Ite(Ge(ts[0], z), ts[0], Neg(ts[0])), Ite(Ge(ts[0], z), Neg(ts[0]), ts[0]))
		}
		return App(strings.ToLower(name), SReal, ts...)
	case "github.com/pbenner/threadpool":
		// sequential model of the external thread pool: one thread (id 0), jobs run at once in index order
		// (schedules and races are outside this technique, property C17)
		nilErr := &biface{}
		_ = nilErr
		callJob := func(f interface{}, a ...interface{}) interface{} {
			clo, _ := f.(*bclosure)
			if clo == nil {
				panic(bsymPanic{"call of nil job"})
			}
			return b.call(clo.fn, a, clo.free)
		}
		errf := &bclosure{fn: nil}
		_ = errf
		switch name {
		case "Nil", "New":
			return b.zero(fn.Signature.Results().At(0).Type())
		case "NumberOfThreads":
			return int64(1)
		case "GetThreadId":
			return int64(0)
		case "NewJobGroup":
			return int64(0)
		case "Wait":
			return b.zero(errType)
		case "AddRangeJob", "RangeJob":
			// (t, iFrom, iTo, [jobGroup,] f)
			from, to := args[1].(int64), args[2].(int64)
			f := args[len(args)-1]
			for i := from; i < to; i++ {
				r := callJob(f, i, args[0], b.zero(fn.Signature.Params().At(fn.Signature.Params().Len()-1).Type().Underlying().(*types.Signature).Params().At(2).Type()))
				if !isNilVal(r) {
					return r
				}
			}
			return b.zero(errType)
		case "AddJob", "Job":
			f := args[len(args)-1]
			return callJob(f, args[0], b.zero(fn.Signature.Params().At(fn.Signature.Params().Len()-1).Type().Underlying().(*types.Signature).Params().At(1).Type()))
		}
	case "fmt":
		switch name {
		case "Sprintf":
			return fmt.Sprintf(args[0].(string), b.fmtArgs(args[1])...)
		case "Errorf":
			return &biface{typ: errType, v: fmt.Sprintf(args[0].(string), b.fmtArgs(args[1])...)}
		case "Sprint", "Sprintln":
			return fmt.Sprint(b.fmtArgs(args[0])...)
		case "Printf", "Println", "Print", "Fprintf":
			return btuple{int64(0), (*biface)(nil)}
		}
	case "errors":
		if name == "New" {
			return &biface{typ: errType, v: args[0]}
		}
	case "reflect":
		if name == "TypeOf" {
			ifv, _ := args[0].(*biface)
			if ifv == nil {
				return (*biface)(nil)
			}
			return &biface{typ: errType /* placeholder dynamic type of reflect.Type values */, v: &btype{ifv.typ}}
		}
	case "sort":
		// not modelled
	}
	b.fail("bsym: external function %s", fn.String())
	return nil
}

// ---------------------------------------------------------------------------
// driver

type BoundedHarness struct {
	Name  string // function name in the package
	Pkg   string // package path suffix relative to the repository root ("" for root)
	Label string
}

type boundedPath struct {
	decisions []bool
	checks    []bcheck
	outcome   string // returned | panic: msg | stopped: reason
	notes     []string
}

func (V *Verifier) runBsymPath(fn *ssa.Function, decisions []bool, maxSteps int) (p boundedPath, taken []bool) {
	b := &bsym{V: V, globals: map[*ssa.Global]*bcell{}, decisions: decisions, maxSteps: maxSteps, inited: map[*ssa.Package]bool{}}
	func() {
		defer func() {
			if r := recover(); r != nil {
				switch x := r.(type) {
				case bsymPanic:
					p.outcome = "panic: " + x.msg
				case bsymStop:
					p.outcome = "stopped: " + x.reason
				default:
					p.outcome = fmt.Sprintf("stopped: interpreter error: %v", r)
					if os.Getenv("GOVC_DEBUG_BSYM") != "" {
						fmt.Fprintf(os.Stderr, "bsym panic: %v at %v in %v\n%s\n", r, b.curInstr, b.curInstr.Parent(), debug.Stack())
					}
				}
			}
		}()
		if init := fn.Pkg.Func("init"); init != nil {
			b.call(init, nil, nil)
		}
		b.call(fn, nil, nil)
		p.outcome = "returned"
	}()
	p.decisions = append([]bool{}, b.taken...)
	p.checks = b.checks
	p.notes = b.notes
	return p, b.taken
}

// RunBounded explores all paths of a harness function and returns obligations.
func (V *Verifier) RunBounded(h BoundedHarness, maxPaths int) *FuncResult {
	pp := V.rootPath
	if h.Pkg != "" {
		pp += "/" + h.Pkg
	}
	name := "bounded." + h.Name
	res := &FuncResult{Name: name}
	fn := V.funcs[pp+"::"+h.Name]
	if fn == nil {
		res.Err = "bounded harness function not found: " + h.Name
		return res
	}
	dummy := &Exec{V: V, fn: fn, name: name, counters: map[string]int{}, initHeap: map[string]*Term{}, allComps: map[string]*Sort{}, params: map[string]*Val{}, paramTyp: map[string]types.Type{}}
	res.Ex = dummy
	stack := [][]bool{{}}
	npaths := 0
	outcomes := map[string]int{}
	for len(stack) > 0 {
		d := stack[len(stack)-1]
		stack = stack[:len(stack)-1]
		p, taken := V.runBsymPath(fn, d, 60000000)
		npaths++
		if npaths > maxPaths {
			res.Err = fmt.Sprintf("bounded harness %s: more than %d paths", h.Name, maxPaths)
			return res
		}
		for k := len(d); k < len(taken); k++ {
			alt := append(append([]bool{}, taken[:k]...), !taken[k])
			stack = append(stack, alt)
		}
		ok := strings.SplitN(p.outcome, ":", 2)[0]
		outcomes[ok]++
		if strings.HasPrefix(p.outcome, "stopped: ") && !strings.Contains(p.outcome, "assumption false") {
			res.Err = fmt.Sprintf("bounded harness %s: %s", h.Name, p.outcome)
			return res
		}
		for _, c := range p.checks {
			o := &Obligation{Name: fmt.Sprintf("%s#%s.path%d", name, c.name, npaths), Kind: "jet", Func: name, Goal: c.goal, Reach: True, Ex: dummy,
				Src: "bounded case: " + c.name + " on path " + decisionString(p.decisions), JetHyp: c.pc, Bounded: true}
			res.Obls = append(res.Obls, o)
		}
		if strings.HasPrefix(p.outcome, "panic") {
			// a panic the harness did not expect ends the path without checks: report it as a failed case
			o := &Obligation{Name: fmt.Sprintf("%s#nopanic.path%d", name, npaths), Kind: "jet", Func: name, Goal: False, Reach: True, Ex: dummy,
				Src: "bounded case: unexpected " + p.outcome + " on path " + decisionString(p.decisions), JetHyp: pcOf(p), Bounded: true}
			res.Obls = append(res.Obls, o)
		}
	}
	res.BoundedPaths = npaths
	var ks []string
	for k, n := range outcomes {
		ks = append(ks, fmt.Sprintf("%s=%d", k, n))
	}
	sort.Strings(ks)
	res.BoundedNote = fmt.Sprintf("%d paths (%s)", npaths, strings.Join(ks, ", "))
	return res
}

func pcOf(p boundedPath) []*Term {
	if len(p.checks) > 0 {
		return p.checks[len(p.checks)-1].pc
	}
	return nil
}

func decisionString(d []bool) string {
	var sb strings.Builder
	for _, x := range d {
		if x {
			sb.WriteByte('T')
		} else {
			sb.WriteByte('F')
		}
	}
	if sb.Len() == 0 {
		return "-"
	}
	return sb.String()
}

// boundedOverlays: harness sources under /verif/bounded/sym/<pkgdir>/*.go are added to the package.
func boundedOverlays(verifDir string) map[string][]byte {
	ov := map[string][]byte{}
	root := filepath.Join(verifDir, "bounded", "sym")
	filepath.Walk(root, func(p string, info os.FileInfo, err error) error {
		if err != nil || info.IsDir() || !strings.HasSuffix(p, ".go") {
			return nil
		}
		rel, _ := filepath.Rel(root, p)
		data, err := os.ReadFile(p)
		if err == nil {
			ov[filepath.Join(repoDir, filepath.Dir(rel), "zz_govc_"+filepath.Base(rel))] = data
		}
		return nil
	})
	return ov
}

// ---------------------------------------------------------------------------
// common-subexpression naming: the interpreter builds DAGs, the SMT printer prints trees.
// cseTerms replaces every shared non-leaf subterm of the (quantifier-free) input by a fresh constant
// and returns the defining equations first; the result is equisatisfiable with the input.

func cseTerms(as []*Term) []*Term {
	refs := map[*Term]int{}
	var count func(t *Term)
	count = func(t *Term) {
		refs[t]++
		if refs[t] > 1 {
			return
		}
		for _, a := range t.Args {
			count(a)
		}
	}
	for _, a := range as {
		count(a)
	}
	shared := 0
	for t, n := range refs {
		if n > 1 && len(t.Args) > 0 {
			shared++
		}
	}
	if shared < 8 {
		return as
	}
	var defs []*Term
	memo := map[*Term]*Term{}
	var rec func(t *Term) *Term
	rec = func(t *Term) *Term {
		if r, ok := memo[t]; ok {
			return r
		}
		if len(t.Args) == 0 || len(t.Vars) > 0 {
			memo[t] = t
			return t
		}
		args := make([]*Term, len(t.Args))
		for i, a := range t.Args {
			args[i] = rec(a)
		}
		r := mk(t.Op, t.S, args...)
		if refs[t] > 1 && (t.S == SReal || t.S == SInt) {
			c := Fresh("cse", t.S)
			defs = append(defs, mk("=", SBool, c, r))
			r = c
		}
		memo[t] = r
		return r
	}
	var out []*Term
	for _, a := range as {
		out = append(out, rec(a))
	}
	return append(defs, out...)
}

// feasible reports whether pc ∧ c may be satisfiable (z3, short timeout; unknown counts as feasible).
var feasCache sync.Map

func (b *bsym) feasible(c *Term) bool {
	var sb strings.Builder
	for _, p := range b.pc {
		sb.WriteString(fmt.Sprintf("%d,", p.id))
	}
	sb.WriteString(fmt.Sprintf("|%d", c.id))
	key := sb.String()
	if v, ok := feasCache.Load(key); ok {
		return v.(bool)
	}
	as := append(append([]*Term{}, b.pc...), c)
	as = append(as, mathAxiomInstances(as)...)
	as = cseTerms(as)
	sc := &Script{Asserts: as}
	text := sc.Render(preludeFor(as), nil)
	f, err := os.CreateTemp("", "govc-feas-*.smt2")
	res := true
	if err == nil {
		f.WriteString(text)
		f.Close()
		st, _, _ := runSolver(context.Background(), "z3-new", []string{"-T:3"}, f.Name(), 3*time.Second)
		os.Remove(f.Name())
		if st == "unsat" {
			res = false
		}
	}
	feasCache.Store(key, res)
	return res
}
