package main

// Go types -> logic sorts, heap components, struct layout.

import (
	"fmt"
	"go/constant"
	"go/types"
	"math/big"
	"strings"

	"golang.org/x/tools/go/packages"
	"golang.org/x/tools/go/ssa"
)

type Verifier struct {
	prog     *ssa.Program
	spkgs    map[string]*ssa.Package
	ppkgs    map[string]*packages.Package
	rootPath string
	cf       *ContractFile
	byFunc   map[*ssa.Function]*Contract
	byName   map[string]*Contract // pkgpath + "::" + relname
	funcs    map[string]*ssa.Function
	structs  map[string]*structInfo
	strTab   map[string]int
	opts     Options
	anonCtr  int
	anonName map[string]string
	compType map[string]types.Type // heap component -> Go type of the stored values
}

type Options struct {
	Timeout    int // seconds per obligation
	Workers    int
	WorkDir    string
	Seed       int
	Verbose    bool
	InlineMax  int
	KeepSMT    bool
	OnlyFunc   string
	OnlyObl    string
	Tier       string
}

type structInfo struct {
	name   string
	st     *types.Struct
	sort   *Sort
	decl   *DataDecl
	size   int   // refs occupied (1 + nested struct fields)
	offset []int // for struct-valued fields: ref offset; else 0
}

func (v *Verifier) qual(p *types.Package) string {
	if p == nil || p.Path() == v.rootPath {
		return ""
	}
	return p.Name()
}

func (v *Verifier) typeName(t types.Type) string {
	return types.TypeString(t, v.qual)
}

func (v *Verifier) structName(t types.Type) string {
	if n, ok := t.(*types.Named); ok {
		return v.typeName(n)
	}
	if a, ok := t.(*types.Alias); ok {
		return v.structName(types.Unalias(a))
	}
	s := v.typeName(t)
	if n, ok := v.anonName[s]; ok {
		return n
	}
	v.anonCtr++
	n := fmt.Sprintf("anon%d", v.anonCtr)
	v.anonName[s] = n
	return n
}

func (v *Verifier) structOf(t types.Type) *structInfo {
	st, ok := t.Underlying().(*types.Struct)
	if !ok {
		panic("structOf: not a struct: " + t.String())
	}
	name := v.structName(t)
	if si, ok := v.structs[name]; ok {
		return si
	}
	si := &structInfo{name: name, st: st}
	v.structs[name] = si // (recursion guard: value-recursive structs are impossible in Go)
	c := &Ctor{Name: "mk:" + name}
	size := 1
	si.offset = make([]int, st.NumFields())
	for i := 0; i < st.NumFields(); i++ {
		f := st.Field(i)
		c.Fields = append(c.Fields, "fld:"+name+"."+f.Name())
		c.Sorts = append(c.Sorts, v.sortOf(f.Type()))
		if _, ok := f.Type().Underlying().(*types.Struct); ok {
			si.offset[i] = size
			size += v.structOf(f.Type()).size
		}
	}
	si.size = size
	si.decl = DeclareData("S_"+sanitize(name), c)
	si.sort = si.decl.S
	return si
}

func isStruct(t types.Type) bool {
	_, ok := t.Underlying().(*types.Struct)
	return ok
}

func (v *Verifier) sortOf(t types.Type) *Sort {
	switch u := t.Underlying().(type) {
	case *types.Basic:
		switch {
		case u.Info()&types.IsBoolean != 0:
			return SBool
		case u.Info()&types.IsInteger != 0:
			return SInt
		case u.Info()&types.IsFloat != 0:
			return SReal
		case u.Info()&types.IsString != 0:
			return SInt
		case u.Kind() == types.UnsafePointer:
			return SPtr
		case u.Kind() == types.UntypedNil:
			return SInt
		}
		return SInt
	case *types.Pointer:
		if isStruct(u.Elem()) {
			return SInt
		}
		return SPtr
	case *types.Slice:
		return SSlice
	case *types.Array:
		return SArr(SInt, v.sortOf(u.Elem()))
	case *types.Map, *types.Chan, *types.Signature:
		return SInt
	case *types.Interface:
		return SIface
	case *types.Struct:
		return v.structOf(t).sort
	case *types.Tuple:
		panic("sortOf tuple")
	}
	panic("sortOf: unsupported type " + t.String())
}

func (v *Verifier) zeroOf(t types.Type) *Term {
	return v.zeroSort(v.sortOf(t))
}

func (v *Verifier) zeroSort(s *Sort) *Term {
	switch s.K {
	case KBool:
		return False
	case KInt:
		return IntLit(0)
	case KReal:
		return RealOfInt(0)
	case KArr:
		return ConstArr(s, v.zeroSort(s.B))
	case KData:
		switch s {
		case SSlice:
			return NilSlice
		case SPtr:
			return NilPtr
		case SIface:
			return NilIface
		}
		d := dataDecls[s.Name]
		c := d.Ctors[0]
		args := make([]*Term, len(c.Sorts))
		for i, fs := range c.Sorts {
			args[i] = v.zeroSort(fs)
		}
		return Ctr(d, c, args...)
	}
	panic("zeroSort")
}

// heap component names
func (v *Verifier) fieldComp(si *structInfo, i int) (string, *Sort) {
	f := si.st.Field(i)
	n := "F:" + si.name + "." + f.Name()
	v.compType[n] = f.Type()
	return n, SArr(SInt, v.sortOf(f.Type()))
}
func (v *Verifier) elemComp(t types.Type) (string, *Sort) {
	n := "E:" + v.typeName(t)
	v.compType[n] = t
	return n, SArr(SInt, SArr(SInt, v.sortOf(t)))
}
func (v *Verifier) mapComps(m *types.Map) (string, *Sort, string, *Sort) {
	n := v.typeName(m.Key()) + "," + v.typeName(m.Elem())
	ks := v.sortOf(m.Key())
	v.compType["Mv:"+n] = m.Elem()
	return "Mh:" + n, SArr(SInt, SArr(ks, SBool)), "Mv:" + n, SArr(SInt, SArr(ks, v.sortOf(m.Elem())))
}

// rangeComp: ghost component holding the visited-key set of every live map-range iterator.
func (v *Verifier) rangeComp(m *types.Map) (string, *Sort) {
	n := v.typeName(m.Key()) + "," + v.typeName(m.Elem())
	return "Rv:" + n, SArr(SInt, SArr(v.sortOf(m.Key()), SBool))
}

func (v *Verifier) strToken(s string) *Term {
	if id, ok := v.strTab[s]; ok {
		return IntLit(int64(id))
	}
	id := len(v.strTab) + 1
	v.strTab[s] = id
	return IntLit(int64(id))
}

func (v *Verifier) constTerm(c *ssa.Const) (*Term, error) {
	t := c.Type()
	s := v.sortOf(t)
	if c.Value == nil {
		return v.zeroSort(s), nil
	}
	switch c.Value.Kind() {
	case constant.Bool:
		return BoolLit(constant.BoolVal(c.Value)), nil
	case constant.String:
		return v.strToken(constant.StringVal(c.Value)), nil
	case constant.Int:
		bi, ok := new(big.Int).SetString(c.Value.ExactString(), 10)
		if !ok {
			return nil, fmt.Errorf("bad int const %s", c.Value.ExactString())
		}
		if s == SReal {
			return RealLit(new(big.Rat).SetInt(bi)), nil
		}
		return BigIntLit(bi), nil
	case constant.Float:
		if s == SInt {
			iv := constant.ToInt(c.Value)
			bi, _ := new(big.Int).SetString(iv.ExactString(), 10)
			return BigIntLit(bi), nil
		}
		if f, _ := constant.Float64Val(c.Value); s == SReal {
			// the float64 values of pi and sqrt(pi) are kept symbolic (prelude: sqrtpi^2 = pi)
			switch f {
			case 3.141592653589793:
				return App("pi", SReal), nil
			case 6.283185307179586:
				return Mul(RealOfInt(2), App("pi", SReal)), nil
			case 1.772453850905516, 1.7724538509055159:
				return App("sqrtpi", SReal), nil
			}
		}
		r, ok := new(big.Rat).SetString(c.Value.ExactString())
		if !ok {
			// ExactString may be of the form a/b already handled; fall back
			f, _ := constant.Float64Val(c.Value)
			r = new(big.Rat).SetFloat64(f)
		}
		return RealLit(r), nil
	}
	return nil, fmt.Errorf("unsupported constant %s", c)
}

func relFuncName(fn *ssa.Function) string {
	if fn.Pkg != nil {
		return fn.RelString(fn.Pkg.Pkg)
	}
	if fn.Parent() != nil {
		return relFuncName(fn.Parent()) + "$?"
	}
	return fn.String()
}

func shortType(s string) string {
	return strings.ReplaceAll(s, "github.com/pbenner/autodiff", "autodiff")
}
