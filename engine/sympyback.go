package main

// sympy back end for pure real-field / exp-log identities (jet-level obligations whose goal is an equality):
// the identity is checked by exact symbolic normalisation, without using the hypotheses -- sound, since an
// identity that holds unconditionally holds on every path.

import (
	"syscall"
	"context"
	"fmt"
	"os"
	"os/exec"
	"strings"
	"time"
)

// pyDag renders terms as a sequence of Python assignments, one per distinct non-leaf subterm, so that
// shared subterms (the interpreter builds DAGs) are neither printed nor evaluated more than once.
type pyDag struct {
	syms  map[string]bool
	names map[*Term]string
	lines []string
}

func (d *pyDag) term(t *Term) (string, bool) {
	if n, ok := d.names[t]; ok {
		return n, true
	}
	leaf := func(s string) (string, bool) { return s, true }
	var expr string
	switch {
	case t.IsConst():
		n := "s_" + sanitizePy(t.ConstName())
		d.syms[n] = true
		return leaf(n)
	case t.IsIntLit():
		return leaf("sp.Integer(" + t.IntVal().String() + ")")
	case t.IsRealLit():
		r := t.RatVal()
		return leaf(fmt.Sprintf("sp.Rational(%s,%s)", r.Num().String(), r.Denom().String()))
	case t.Op == "to_real":
		return d.term(t.Args[0])
	case t.Op == "+" || t.Op == "-" || t.Op == "*" || t.Op == "/":
		a, ok1 := d.term(t.Args[0])
		b, ok2 := d.term(t.Args[1])
		if !ok1 || !ok2 {
			return "", false
		}
		expr = "(" + a + " " + t.Op + " " + b + ")"
	case strings.HasPrefix(t.Op, "f:"):
		name := t.Op[2:]
		var args []string
		for _, a := range t.Args {
			s, ok := d.term(a)
			if !ok {
				return "", false
			}
			args = append(args, s)
		}
		switch name {
		case "exp", "log", "sin", "cos", "tan", "sinh", "cosh", "tanh", "sqrt", "erf", "erfc", "gamma":
			expr = "sp." + name + "(" + strings.Join(args, ",") + ")"
		case "log1p":
			expr = "sp.log(1 + " + args[0] + ")"
		case "pi":
			return leaf("sp.pi")
		case "sqrtpi":
			return leaf("sp.sqrt(sp.pi)")
		case "pow":
			expr = "(" + args[0] + ")**(" + args[1] + ")"
		default:
			fn := "uf_" + sanitizePy(name)
			d.syms["F:"+fn] = true
			expr = fn + "(" + strings.Join(args, ",") + ")"
		}
	default:
		return "", false
	}
	n := fmt.Sprintf("v%d", len(d.names))
	d.names[t] = n
	d.lines = append(d.lines, n+" = "+expr)
	return n, true
}

func sanitizePy(s string) string {
	var sb strings.Builder
	for _, r := range s {
		if r >= 'a' && r <= 'z' || r >= 'A' && r <= 'Z' || r >= '0' && r <= '9' {
			sb.WriteRune(r)
		} else {
			sb.WriteByte('_')
		}
	}
	return sb.String()
}

// sympyProve returns true if goal (an equality or conjunction of equalities) is an identity.
func sympyProve(goal *Term, hyps []*Term, timeout time.Duration, workfile string) (bool, string, float64) {
	var eqs []*Term
	var collectEq func(t *Term) bool
	collectEq = func(t *Term) bool {
		switch t.Op {
		case "and":
			for _, a := range t.Args {
				if !collectEq(a) {
					return false
				}
			}
			return true
		case "=":
			if t.Args[0].S == SReal {
				eqs = append(eqs, t)
				return true
			}
		}
		return false
	}
	if !collectEq(goal) || len(eqs) == 0 {
		return false, "goal is not a conjunction of real equalities", 0
	}
	dag := &pyDag{syms: map[string]bool{}, names: map[*Term]string{}}
	var lines []string
	for _, e := range eqs {
		a, ok1 := dag.term(e.Args[0])
		b, ok2 := dag.term(e.Args[1])
		if !ok1 || !ok2 {
			return false, "term outside the sympy fragment", 0
		}
		lines = append(lines, "eqs.append(("+a+", "+b+"))")
	}
	// hypotheses that are comparisons of real terms are handed over as (lhs - rhs, op); the script uses the
	// ones that pin down the sign of a single symbol (so that |t|, sqrt(t^2) simplify on this path)
	var hlines []string
	for _, h := range hyps {
		neg := false
		if h.Op == "not" {
			neg = true
			h = h.Args[0]
		}
		op := h.Op
		switch op {
		case "<", "<=", ">", ">=", "=":
		default:
			continue
		}
		if len(h.Args) != 2 || h.Args[0].S != SReal {
			continue
		}
		if neg {
			op = map[string]string{"<": ">=", "<=": ">", ">": "<=", ">=": "<", "=": "!="}[op]
		}
		if op == "=" {
			op = "=="
		}
		a, ok1 := dag.term(h.Args[0])
		b, ok2 := dag.term(h.Args[1])
		if !ok1 || !ok2 {
			continue
		}
		hlines = append(hlines, "hyps.append(("+a+" - "+b+", '"+op+"'))")
	}
	syms := dag.syms
	var sb strings.Builder
	// the script ends itself should the checker be killed while it runs
	sb.WriteString(fmt.Sprintf("import signal\nsignal.alarm(%d)\n", int(timeout.Seconds())+5))
	sb.WriteString("import sympy as sp\nimport sys\n")
	for s := range syms {
		if strings.HasPrefix(s, "F:") {
			sb.WriteString(s[2:] + " = sp.Function('" + s[2:] + "')\n")
		} else {
			sb.WriteString(s + " = sp.Symbol('" + s + "', real=True)\n")
		}
	}
	sb.WriteString(strings.Join(dag.lines, "\n") + "\n")
	sb.WriteString("eqs = []\n" + strings.Join(lines, "\n") + "\n")
	sb.WriteString("hyps = []\n" + strings.Join(hlines, "\n") + "\n")
	sb.WriteString(`
# sign information from single-symbol hypotheses
def refine(eqs, hyps):
    dom = {}
    nz = set()
    for (e, op) in hyps:
        try:
            fs = e.free_symbols
            if len(fs) != 1 or e.has(sp.Function('uf')):
                continue
            x = list(fs)[0]
            if op == '!=':
                f = sp.factor(sp.simplify(e))
                c, p = f.as_coeff_Mul()
                if p == x or (p.is_Pow and p.base == x):
                    nz.add(x)
                continue
            if op == '==':
                sol = sp.solveset(e, x, sp.S.Reals)
            else:
                rel = {'<': e < 0, '<=': e <= 0, '>': e > 0, '>=': e >= 0}[op]
                sol = sp.solve_univariate_inequality(rel, x, relational=False)
            dom[x] = dom.get(x, sp.S.Reals).intersect(sol)
        except Exception:
            continue
    repl = {}
    for x in set(dom) | nz:
        d = dom.get(x, sp.S.Reals)
        if x in nz:
            d = d - sp.FiniteSet(0)
        try:
            if d == sp.FiniteSet(0):
                repl[x] = sp.Integer(0)
            elif d.is_subset(sp.Interval.open(0, sp.oo)):
                repl[x] = sp.Symbol(x.name, positive=True)
            elif d.is_subset(sp.Interval.open(-sp.oo, 0)):
                repl[x] = sp.Symbol(x.name, negative=True)
            elif d.is_subset(sp.Interval(0, sp.oo)):
                repl[x] = sp.Symbol(x.name, nonnegative=True)
            elif d.is_subset(sp.Interval(-sp.oo, 0)):
                repl[x] = sp.Symbol(x.name, nonpositive=True)
            elif x in nz:
                repl[x] = sp.Symbol(x.name, real=True, nonzero=True)
        except Exception:
            continue
    if not repl:
        return eqs, hyps, False
    return [(a.subs(repl), b.subs(repl)) for (a, b) in eqs], [(e.subs(repl), op) for (e, op) in hyps], True

for _ in range(3):
    eqs, hyps, changed = refine(eqs, hyps)
    if not changed:
        break
ok = True
for (a, b) in eqs:
    d = a - b
    z = sp.simplify(sp.expand_log(sp.expand(sp.together(d)), force=True))
    if z != 0:
        z = sp.simplify(sp.exp(sp.expand_log(a, force=True)) - sp.exp(sp.expand_log(b, force=True)))
        if z != 0:
            z = sp.cancel(sp.together(sp.expand(d)))
    if z != 0:
        ok = False
        print("unknown", z)
        break
if ok:
    print("unsat")
`)
	if err := os.WriteFile(workfile, []byte(sb.String()), 0644); err != nil {
		return false, err.Error(), 0
	}
	ctx, cancel := context.WithTimeout(context.Background(), timeout)
	defer cancel()
	start := time.Now()
	// run the interpreter itself (python3-vt is a shell wrapper whose child would survive the kill),
	// in its own process group, with an address-space limit: sympy can grow without bound on nested radicals
	cmd := exec.CommandContext(ctx, "/bin/sh", "-c", "ulimit -v 3000000; exec /opt/veriftools/pyvenv/bin/python \"$0\"", workfile)
	cmd.SysProcAttr = &syscall.SysProcAttr{Setpgid: true}
	cmd.Cancel = func() error {
		if cmd.Process != nil {
			syscall.Kill(-cmd.Process.Pid, syscall.SIGKILL)
		}
		return nil
	}
	cmd.WaitDelay = 2 * time.Second
	out, _ := cmd.CombinedOutput()
	el := time.Since(start).Seconds()
	s := strings.TrimSpace(string(out))
	return strings.HasPrefix(s, "unsat"), s, el
}
