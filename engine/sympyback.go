package main

// sympy back end for pure real-field / exp-log identities (jet-level obligations whose goal is an equality):
// the identity is checked by exact symbolic normalisation, without using the hypotheses -- sound, since an
// identity that holds unconditionally holds on every path.

import (
	"syscall"
	"context"
	"fmt"
	"os"
	"os/exec"
	"strings"
	"time"
)

func pyTerm(t *Term, syms map[string]bool) (string, bool) {
	switch {
	case t.IsConst():
		n := "s_" + sanitizePy(t.ConstName())
		syms[n] = true
		return n, true
	case t.IsIntLit():
		return "sp.Integer(" + t.IntVal().String() + ")", true
	case t.IsRealLit():
		r := t.RatVal()
		return fmt.Sprintf("sp.Rational(%s,%s)", r.Num().String(), r.Denom().String()), true
	case t.Op == "to_real":
		return pyTerm(t.Args[0], syms)
	case t.Op == "+" || t.Op == "-" || t.Op == "*" || t.Op == "/":
		a, ok1 := pyTerm(t.Args[0], syms)
		b, ok2 := pyTerm(t.Args[1], syms)
		if !ok1 || !ok2 {
			return "", false
		}
		return "(" + a + " " + t.Op + " " + b + ")", true
	case strings.HasPrefix(t.Op, "f:"):
		name := t.Op[2:]
		var args []string
		for _, a := range t.Args {
			s, ok := pyTerm(a, syms)
			if !ok {
				return "", false
			}
			args = append(args, s)
		}
		switch name {
		case "exp", "log", "sin", "cos", "tan", "sinh", "cosh", "tanh", "sqrt", "erf", "erfc", "gamma":
			return "sp." + name + "(" + strings.Join(args, ",") + ")", true
		case "log1p":
			return "sp.log(1 + " + args[0] + ")", true
		case "pi":
			return "sp.pi", true
		case "sqrtpi":
			return "sp.sqrt(sp.pi)", true
		case "pow":
			return "(" + args[0] + ")**(" + args[1] + ")", true
		}
		fn := "uf_" + sanitizePy(name)
		syms["F:"+fn] = true
		return fn + "(" + strings.Join(args, ",") + ")", true
	}
	return "", false
}

func sanitizePy(s string) string {
	var sb strings.Builder
	for _, r := range s {
		if r >= 'a' && r <= 'z' || r >= 'A' && r <= 'Z' || r >= '0' && r <= '9' {
			sb.WriteRune(r)
		} else {
			sb.WriteByte('_')
		}
	}
	return sb.String()
}

// sympyProve returns true if goal (an equality or conjunction of equalities) is an identity.
func sympyProve(goal *Term, timeout time.Duration, workfile string) (bool, string, float64) {
	var eqs []*Term
	var collectEq func(t *Term) bool
	collectEq = func(t *Term) bool {
		switch t.Op {
		case "and":
			for _, a := range t.Args {
				if !collectEq(a) {
					return false
				}
			}
			return true
		case "=":
			if t.Args[0].S == SReal {
				eqs = append(eqs, t)
				return true
			}
		}
		return false
	}
	if !collectEq(goal) || len(eqs) == 0 {
		return false, "goal is not a conjunction of real equalities", 0
	}
	syms := map[string]bool{}
	var lines []string
	for _, e := range eqs {
		a, ok1 := pyTerm(e.Args[0], syms)
		b, ok2 := pyTerm(e.Args[1], syms)
		if !ok1 || !ok2 {
			return false, "term outside the sympy fragment", 0
		}
		lines = append(lines, "eqs.append(("+a+", "+b+"))")
	}
	var sb strings.Builder
	// the script ends itself should the checker be killed while it runs
	sb.WriteString(fmt.Sprintf("import signal\nsignal.alarm(%d)\n", int(timeout.Seconds())+5))
	sb.WriteString("import sympy as sp\nimport sys\n")
	for s := range syms {
		if strings.HasPrefix(s, "F:") {
			sb.WriteString(s[2:] + " = sp.Function('" + s[2:] + "')\n")
		} else {
			sb.WriteString(s + " = sp.Symbol('" + s + "', real=True)\n")
		}
	}
	sb.WriteString("eqs = []\n" + strings.Join(lines, "\n") + "\n")
	sb.WriteString(`ok = True
for (a, b) in eqs:
    d = a - b
    z = sp.simplify(sp.expand_log(sp.expand(sp.together(d)), force=True))
    if z != 0:
        z = sp.simplify(sp.exp(sp.expand_log(a, force=True)) - sp.exp(sp.expand_log(b, force=True)))
        if z != 0:
            z = sp.cancel(sp.together(sp.expand(d)))
    if z != 0:
        ok = False
        print("unknown", z)
        break
if ok:
    print("unsat")
`)
	if err := os.WriteFile(workfile, []byte(sb.String()), 0644); err != nil {
		return false, err.Error(), 0
	}
	ctx, cancel := context.WithTimeout(context.Background(), timeout)
	defer cancel()
	start := time.Now()
	// run the interpreter itself (python3-vt is a shell wrapper whose child would survive the kill),
	// in its own process group, with an address-space limit: sympy can grow without bound on nested radicals
	cmd := exec.CommandContext(ctx, "/bin/sh", "-c", "ulimit -v 3000000; exec /opt/veriftools/pyvenv/bin/python \"$0\"", workfile)
	cmd.SysProcAttr = &syscall.SysProcAttr{Setpgid: true}
	cmd.Cancel = func() error {
		if cmd.Process != nil {
			syscall.Kill(-cmd.Process.Pid, syscall.SIGKILL)
		}
		return nil
	}
	cmd.WaitDelay = 2 * time.Second
	out, _ := cmd.CombinedOutput()
	el := time.Since(start).Seconds()
	s := strings.TrimSpace(string(out))
	return strings.HasPrefix(s, "unsat"), s, el
}
