package main

// Per-function driver: builds all obligations of one function under contract.

import (
	"fmt"
	"go/types"
	"sort"
	"strings"

	"golang.org/x/tools/go/ssa"
)

type FuncResult struct {
	Name      string
	Func      *ssa.Function
	Contract  *Contract
	Obls      []*Obligation
	Err       string // generation error (unsupported construct, blocked-by ...)
	Inlined   []string
	Used      []string
	Trusted   []string
	NoInv     []string
	NoTerm    []string
	Ex        *Exec
	BoundedPaths int
	BoundedNote  string
}

// VerifyFunc generates the obligations of fn. With "model split" the function is executed twice:
// once with real (nonlinear) products, keeping only the call-site coefficient obligations
// ("site.*", genuine real algebra), and once with uninterpreted products, where those coefficient
// facts are assumed and everything else (postcondition, frame, preconditions of callees, safety)
// is pure congruence reasoning.
func (V *Verifier) VerifyFunc(fn *ssa.Function, con *Contract) (res *FuncResult) {
	if con.Model == "split" {
		c1 := *con
		c1.Model = ""
		r1 := V.verifyFunc1(fn, &c1)
		c2 := *con
		c2.Model = "acmul"
		r2 := V.verifyFunc1(fn, &c2)
		var obls []*Obligation
		for _, o := range r1.Obls {
			if o.Kind == "site" {
				obls = append(obls, o)
			}
		}
		for _, o := range r2.Obls {
			if o.Kind != "site" {
				obls = append(obls, o)
			}
		}
		r2.Obls = obls
		if r2.Err == "" {
			r2.Err = r1.Err
		}
		r2.Contract = con
		return r2
	}
	return V.verifyFunc1(fn, con)
}

func (V *Verifier) verifyFunc1(fn *ssa.Function, con *Contract) (res *FuncResult) {
	name := V.qualFuncName(fn)
	res = &FuncResult{Name: name, Func: fn, Contract: con}
	ex := &Exec{V: V, fn: fn, con: con, name: name, initHeap: map[string]*Term{}, closures: map[*Term]*Closure{}, counters: map[string]int{},
		params: map[string]*Val{}, paramTyp: map[string]types.Type{}, inlined: map[string]bool{}, trusted: map[string]bool{}, allComps: map[string]*Sort{},
		ghostOld: map[string]*Val{}, usedContracts: map[string]bool{}}
	res.Ex = ex
	ex.noSafe = con.NoSafe
	acMulMode = con.Model == "acmul"
	defer func() { acMulMode = false }()
	defer func() {
		if r := recover(); r != nil {
			if u, ok := r.(unsupported); ok {
				res.Err = u.msg
				res.Obls = ex.obls
				return
			}
			if ce, ok := r.(cevalErr); ok {
				res.Err = "contract: " + ce.msg
				res.Obls = ex.obls
				return
			}
			panic(r)
		}
	}()
	alloc0 := Const("alloc@0", SInt)
	ex.st0 = &State{heap: map[string]*Term{}, alloc: alloc0}
	ex.assume(Ge(alloc0, IntLit(1)))
	st := ex.st0.clone()
	var args []*Val
	for _, p := range fn.Params {
		t := Const("p:"+p.Name(), V.sortOf(p.Type()))
		v := &Val{T: t}
		args = append(args, v)
		ex.params[p.Name()] = v
		ex.paramTyp[p.Name()] = p.Type()
		ex.noteLoaded(t, p.Type(), ex.st0, True)
	}
	fr := ex.newFrame(fn, 0, true)
	for i, fv := range fn.FreeVars {
		// closures verified on their own: free variables are arbitrary
		t := Const(fmt.Sprintf("fv:%s", fv.Name()), V.sortOf(fv.Type()))
		fr.free[fv] = &Val{T: t}
		_ = i
	}
	pkg := fn.Pkg.Pkg
	env0 := &CEnv{ex: ex, vars: ex.paramCVals(), st: ex.st0, old: ex.st0, pkg: pkg}
	var reqs []*Term
	for _, cl := range con.Clauses {
		if cl.Kind == "requires" {
			v, err := env0.Eval(cl.E)
			if err != nil {
				ex.fail("requires: %v", err)
			}
			reqs = append(reqs, v.T)
			ex.assume(v.T)
		}
	}
	cov := ex.oblige("cover", "pre", True, False, "requires satisfiable")
	cov.Cover = true
	cov.Status = ""
	rets := ex.execFunc(fr, args, st, True)
	// declared panic conditions (entry state)
	var pconds, mayconds []*Term
	for _, cl := range con.Clauses {
		if cl.Kind == "panics_when" || cl.Kind == "may_panic" {
			v, err := env0.Eval(cl.E)
			if err != nil {
				ex.fail("panics_when: %v", err)
			}
			if cl.Kind == "panics_when" {
				pconds = append(pconds, v.T)
			}
			mayconds = append(mayconds, v.T)
		}
	}
	noPanic := Not(Or(pconds...))
	// postconditions (only claimed for calls that are not required to panic)
	results := fn.Signature.Results()
	nens := 0
	for _, cl := range con.Clauses {
		if cl.Kind != "ensures" && cl.Kind != "errors_when" {
			continue
		}
		nens++
		var goals []*Term
		for _, r := range rets {
			vars := ex.paramCVals()
			for i := 0; i < results.Len(); i++ {
				cv := &CVal{T: ex.termOf(r.vals[i]), Typ: results.At(i).Type()}
				vars[fmt.Sprintf("result%d", i)] = cv
				if i == 0 {
					vars["result"] = cv
				}
				if n := results.At(i).Name(); n != "" && n != "_" {
					vars[n] = cv
				}
			}
			if cl.Kind == "ensures" {
				env := &CEnv{ex: ex, vars: vars, st: r.st, old: ex.st0, pkg: pkg, fr: nil}
				v, err := env.Eval(cl.E)
				if err != nil {
					ex.fail("ensures: %v", err)
				}
				goals = append(goals, Implies(And(r.reach, noPanic), v.T))
			} else {
				v, err := env0.Eval(cl.E)
				if err != nil {
					ex.fail("errors_when: %v", err)
				}
				last := ex.termOf(r.vals[len(r.vals)-1])
				goals = append(goals, Implies(r.reach, Eq(Neq(last, NilIface), v.T)))
			}
		}
		label := fmt.Sprintf("%d", nens)
		if cl.Name != "" {
			label = cl.Name
		}
		kind := "post"
		if cl.Kind == "errors_when" {
			kind = "post.err"
		}
		ex.oblige(kind, label, True, And(goals...), cl.Src)
	}
	// panics
	allowed := Or(mayconds...)
	kctr := map[string]int{}
	for _, pp := range ex.panics {
		kind := "panics.only"
		if pp.kind != "" {
			kind = "safe." + pp.kind
		}
		kctr[kind]++
		k := kctr[kind] - 1
		o := ex.oblige(kind, fmt.Sprintf("%d", k+1), pp.reach, allowed, pp.where+": only under the declared panic condition")
		o.NAssume = pp.nass
		// nothing visible written before the panic
		var diffs []*Term
		var names []string
		for c := range pp.st.heap {
			names = append(names, c)
		}
		sort.Strings(names)
		for _, c := range names {
			now := pp.st.heap[c]
			init := ex.initHeap[c]
			if init == nil || now == init {
				continue
			}
			if strings.HasPrefix(c, "G:") {
				diffs = append(diffs, Eq(now, init))
				continue
			}
			r := Const("fr?"+c, SInt)
			diffs = append(diffs, Forall([]*Term{r}, Implies(And(Le(IntLit(0), r), Lt(r, alloc0)), Eq(Select(now, r), Select(init, r)))))
		}
		if len(diffs) > 0 && allowed != False && con.AtomicPanics {
			nw := "panics.nowrite"
			if pp.kind != "" {
				nw = "safe.nowrite." + pp.kind
			}
			o := ex.oblige(nw, fmt.Sprintf("%d", k+1), pp.reach, And(diffs...), "no caller-visible write before: "+pp.where)
			o.NAssume = pp.nass
		}
	}
	if len(pconds) > 0 {
		must := Or(pconds...)
		var goals []*Term
		for _, r := range rets {
			goals = append(goals, Implies(r.reach, Not(must)))
		}
		ex.oblige("panics.must", "", True, And(goals...), "returns normally only when the panic condition is false")
	}
	// frame
	if con.HasMod {
		declared := map[string]bool{}
		for _, m := range con.Modifies {
			for _, c := range ex.compsOfSpec(m, nil) {
				declared[c] = true
			}
		}
		changed := map[string]bool{}
		for _, r := range rets {
			for c, now := range r.st.heap {
				if init := ex.initHeap[c]; init != nil && now != init {
					changed[c] = true
				}
			}
		}
		// restricted sets: component -> allowed refs (entry state)
		restrict := map[string][]*Expr{}
		for m, es := range con.ModSets {
			for _, c := range ex.compsOfSpec(m, nil) {
				restrict[c] = es
			}
		}
		var names []string
		for c := range changed {
			if strings.HasPrefix(c, "Rv:") {
				continue // ghost state of range iterators: invisible to callers
			}
			if _, r := restrict[c]; !declared[c] || r {
				names = append(names, c)
			}
		}
		sort.Strings(names)
		for _, c := range names {
			var goals []*Term
			init := ex.initHeap[c]
			qq := Const("fr?"+c, SInt)
			notIn, err := ex.notInSet(env0, restrict[c], qq)
			if err != nil {
				ex.fail("modifies set: %v", err)
			}
			for _, r := range rets {
				now, ok := r.st.heap[c]
				if !ok || now == init {
					continue
				}
				if strings.HasPrefix(c, "G:") {
					goals = append(goals, Implies(r.reach, Eq(now, init)))
					continue
				}
				q := qq
				if now.S.B.K == KArr {
					k2 := Const("fk?"+c, now.S.B.A)
					goals = append(goals, Implies(r.reach, Forall([]*Term{q, k2}, Implies(And(Le(IntLit(0), q), Lt(q, alloc0), notIn), Eq(Select(Select(now, q), k2), Select(Select(init, q), k2))))))
				} else {
					goals = append(goals, Implies(r.reach, Forall([]*Term{q}, Implies(And(Le(IntLit(0), q), Lt(q, alloc0), notIn), Eq(Select(now, q), Select(init, q))))))
				}
			}
			ex.oblige("frame", c, True, And(goals...), "component "+c+": unchanged on pre-existing objects outside the declared modifies set")
		}
	}
	// reachability of a normal return (vacuity guard)
	if len(rets) > 0 {
		rr := False
		for _, r := range rets {
			rr = Or(rr, r.reach)
		}
		cr := ex.oblige("cover", "return", rr, False, "some return reachable")
		cr.Cover = true
		cr.Status = ""
	}
	res.Obls = ex.obls
	for n := range ex.inlined {
		res.Inlined = append(res.Inlined, n)
	}
	sort.Strings(res.Inlined)
	for n := range ex.usedContracts {
		res.Used = append(res.Used, n)
	}
	sort.Strings(res.Used)
	for n := range ex.trusted {
		res.Trusted = append(res.Trusted, n)
	}
	sort.Strings(res.Trusted)
	res.NoInv = ex.loopsWithoutInv
	res.NoTerm = ex.termNotShown
	return res
}

func (V *Verifier) qualFuncName(fn *ssa.Function) string {
	p := "autodiff"
	if fn.Pkg != nil && fn.Pkg.Pkg.Path() != V.rootPath {
		p = fn.Pkg.Pkg.Name()
	}
	return p + "." + relFuncName(fn)
}

// VerifyLemma: a closed formula (universally quantified over its free "forall" prefix).
func (V *Verifier) VerifyLemma(lm *Lemma) *FuncResult {
	res := &FuncResult{Name: "lemma." + lm.Name}
	rp := V.spkgs[lm.Pkg]
	var anyFn *ssa.Function
	for _, m := range rp.Members {
		if f, ok := m.(*ssa.Function); ok && len(f.Blocks) > 0 {
			anyFn = f
			break
		}
	}
	ex := &Exec{V: V, fn: anyFn, name: "lemma." + lm.Name, initHeap: map[string]*Term{}, closures: map[*Term]*Closure{}, counters: map[string]int{},
		params: map[string]*Val{}, paramTyp: map[string]types.Type{}, inlined: map[string]bool{}, trusted: map[string]bool{}, allComps: map[string]*Sort{},
		ghostOld: map[string]*Val{}, usedContracts: map[string]bool{}}
	res.Ex = ex
	defer func() {
		if r := recover(); r != nil {
			if u, ok := r.(unsupported); ok {
				res.Err = u.msg
				return
			}
			if ce, ok := r.(cevalErr); ok {
				res.Err = "contract: " + ce.msg
				return
			}
			panic(r)
		}
	}()
	alloc0 := Const("alloc@0", SInt)
	ex.st0 = &State{heap: map[string]*Term{}, alloc: alloc0}
	ex.assume(Ge(alloc0, IntLit(1)))
	env := &CEnv{ex: ex, vars: map[string]*CVal{}, st: ex.st0, old: ex.st0, pkg: rp.Pkg}
	v, err := env.Eval(lm.E)
	if err != nil {
		res.Err = err.Error()
		return res
	}
	ex.oblige("lemma", lm.Name, True, v.T, lm.Src)
	ex.obls[len(ex.obls)-1].Name = "lemma." + lm.Name
	res.Obls = ex.obls
	return res
}

// structInfoTerms: scalar fields (entry state) of the struct a pointer parameter points to.
func (ex *Exec) structInfoTerms(typ types.Type, ref *Term) []*Term {
	pt, ok := typ.Underlying().(*types.Pointer)
	if !ok || !isStruct(pt.Elem()) {
		return nil
	}
	si := ex.V.structOf(pt.Elem())
	var out []*Term
	for i := 0; i < si.st.NumFields(); i++ {
		f := si.st.Field(i)
		if isStruct(f.Type()) {
			continue
		}
		comp, s := ex.V.fieldComp(si, i)
		init, ok := ex.initHeap[comp]
		if !ok {
			continue
		}
		_ = s
		v := Select(init, ref)
		switch v.S {
		case SInt, SReal, SBool:
			out = append(out, v)
		case SSlice:
			out = append(out, Acc("sbase", v), Acc("soff", v), Acc("slen", v), Acc("scap", v))
		}
	}
	return out
}
