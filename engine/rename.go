package main

// Renamed locals and parameters.
//
// Contracts name parameters, and loop invariants name loop counters and other locals, by their source names.
// A behaviour-preserving rename of such a name would leave the contract with an unknown identifier. To keep
// that from being reported as a broken obligation, expected/locals.json records (at --write-expected time)
// the ordered list of names declared in every function under contract. When the current list differs from
// the recorded one only by a consistent, position-wise renaming (old name gone, new name not used before),
// the contract of that function is rewritten with the new names before obligations are generated. Nothing is
// assumed by this: the rewritten invariants and postconditions are proved like any other; a wrong guess can
// only make a proof fail, never pass.

import (
	"encoding/json"
	"go/ast"
	"go/token"
	"os"
	"sort"
	"strings"

	"golang.org/x/tools/go/ssa"
)

func declNames(fn *ssa.Function) []string {
	fd, ok := fn.Syntax().(*ast.FuncDecl)
	if !ok || fd == nil || fd.Body == nil {
		return nil
	}
	var out []string
	seen := map[string]bool{}
	add := func(id *ast.Ident) {
		if id == nil || id.Name == "_" || seen[id.Name] {
			return
		}
		seen[id.Name] = true
		out = append(out, id.Name)
	}
	fields := func(fl *ast.FieldList) {
		if fl == nil {
			return
		}
		for _, f := range fl.List {
			for _, n := range f.Names {
				add(n)
			}
		}
	}
	fields(fd.Recv)
	fields(fd.Type.Params)
	fields(fd.Type.Results)
	ast.Inspect(fd.Body, func(n ast.Node) bool {
		switch x := n.(type) {
		case *ast.AssignStmt:
			if x.Tok == token.DEFINE {
				for _, l := range x.Lhs {
					if id, ok := l.(*ast.Ident); ok {
						add(id)
					}
				}
			}
		case *ast.RangeStmt:
			if x.Tok == token.DEFINE {
				if id, ok := x.Key.(*ast.Ident); ok {
					add(id)
				}
				if id, ok := x.Value.(*ast.Ident); ok {
					add(id)
				}
			}
		case *ast.ValueSpec:
			for _, n := range x.Names {
				add(n)
			}
		case *ast.FuncLit:
			fields(x.Type.Params)
			fields(x.Type.Results)
		}
		return true
	})
	return out
}

// nParamNames: how many leading entries of declNames are receiver, parameters and named results.
func nParamNames(fn *ssa.Function) int {
	fd, ok := fn.Syntax().(*ast.FuncDecl)
	if !ok || fd == nil {
		return 0
	}
	seen := map[string]bool{}
	k := 0
	for _, fl := range []*ast.FieldList{fd.Recv, fd.Type.Params, fd.Type.Results} {
		if fl == nil {
			continue
		}
		for _, f := range fl.List {
			for _, n := range f.Names {
				if n.Name != "_" && !seen[n.Name] {
					seen[n.Name] = true
					k++
				}
			}
		}
	}
	return k
}

// renameMap returns old->new for a pure renaming, nil otherwise.
func renameMap(old, cur []string) map[string]string {
	if len(old) != len(cur) || len(old) == 0 {
		return nil
	}
	oldSet, curSet := map[string]bool{}, map[string]bool{}
	for _, n := range old {
		oldSet[n] = true
	}
	for _, n := range cur {
		curSet[n] = true
	}
	m := map[string]string{}
	for i := range old {
		if old[i] == cur[i] {
			continue
		}
		if curSet[old[i]] || oldSet[cur[i]] {
			return nil // reordered declarations or a re-used name: not a pure renaming
		}
		m[old[i]] = cur[i]
	}
	if len(m) == 0 {
		return nil
	}
	return m
}

// renameExpr rewrites free identifiers; ok=false when a new name would be captured by a binder.
func renameExpr(e *Expr, m map[string]string, bound map[string]int) (*Expr, bool) {
	if e == nil {
		return nil, true
	}
	n := *e
	switch e.Kind {
	case "ident":
		if bound[e.Name] == 0 {
			if nn, ok := m[e.Name]; ok {
				if bound[nn] > 0 {
					return nil, false
				}
				n.Name = nn
				n.Src = ""
			}
		}
		return &n, true
	}
	if e.Kind == "ident" {
		return &n, true
	}
	// a binder whose name is one of the new names is renamed first (alpha conversion), so that the new
	// name is not captured
	newNames := map[string]bool{}
	for _, v := range m {
		newNames[v] = true
	}
	if len(e.Vars) > 0 || e.Kind == "setcomp" {
		sub := map[string]string{}
		n.Vars = append([]QVar(nil), e.Vars...)
		for i, v := range n.Vars {
			if newNames[v.Name] {
				sub[v.Name] = v.Name + "_bv"
				n.Vars[i].Name = v.Name + "_bv"
			}
		}
		if e.Kind == "setcomp" && newNames[e.Name] {
			sub[e.Name] = e.Name + "_bv"
			n.Name = e.Name + "_bv"
		}
		if len(sub) > 0 {
			cp := n
			cp.Args = make([]*Expr, len(e.Args))
			for i, a := range e.Args {
				cp.Args[i] = alphaExpr(a, sub)
			}
			e = &cp
			n = cp
		}
	}
	var bs []string
	for _, v := range e.Vars {
		bs = append(bs, v.Name)
	}
	if e.Kind == "setcomp" {
		bs = append(bs, e.Name)
	}
	for _, b := range bs {
		bound[b]++
	}
	ok := true
	n.Args = make([]*Expr, len(e.Args))
	for i, a := range e.Args {
		var k bool
		n.Args[i], k = renameExpr(a, m, bound)
		ok = ok && k
	}
	for _, b := range bs {
		bound[b]--
	}
	return &n, ok
}

// alphaExpr renames free occurrences of the given (bound-variable) names below a binder.
func alphaExpr(e *Expr, sub map[string]string) *Expr {
	if e == nil {
		return nil
	}
	n := *e
	if e.Kind == "ident" {
		if nn, ok := sub[e.Name]; ok {
			n.Name = nn
			n.Src = ""
		}
		return &n
	}
	inner := sub
	shadow := func(name string) {
		if _, ok := inner[name]; ok {
			c := map[string]string{}
			for k, v := range inner {
				if k != name {
					c[k] = v
				}
			}
			inner = c
		}
	}
	for _, v := range e.Vars {
		shadow(v.Name)
	}
	if e.Kind == "setcomp" {
		shadow(e.Name)
	}
	n.Args = make([]*Expr, len(e.Args))
	for i, a := range e.Args {
		n.Args[i] = alphaExpr(a, inner)
	}
	return &n
}

func mentions(e *Expr, m map[string]string) bool {
	if e == nil {
		return false
	}
	if e.Kind == "ident" {
		if _, ok := m[e.Name]; ok {
			return true
		}
	}
	for _, a := range e.Args {
		if mentions(a, m) {
			return true
		}
	}
	return false
}

func renameContract(c *Contract, m, mParams map[string]string) *Contract {
	isJet := c.IsJet || len(c.JetAlias) > 0 || c.JetResult != "" || len(c.JetOperands) > 0
	for _, cl := range c.Clauses {
		if strings.HasPrefix(cl.Kind, "jet") {
			isJet = true
		}
	}
	if isJet {
		// jet expressions use x, y, z as operand placeholders: only receiver/parameter/result names are followed
		if len(mParams) == 0 {
			return nil
		}
		return renameJetContract(c, mParams)
	}
	used := false
	n := *c
	cp := func(cls []*Clause) ([]*Clause, bool) {
		var out []*Clause
		for _, cl := range cls {
			k := *cl
			if mentions(cl.E, m) {
				used = true
			}
			e, ok := renameExpr(cl.E, m, map[string]int{})
			if !ok {
				return nil, false
			}
			k.E = e
			out = append(out, &k)
		}
		return out, true
	}
	var ok bool
	if n.Clauses, ok = cp(c.Clauses); !ok {
		return nil
	}
	if n.Ghosts, ok = cp(c.Ghosts); !ok {
		return nil
	}
	if c.ModSets != nil {
		n.ModSets = map[string][]*Expr{}
		for k, es := range c.ModSets {
			for _, e := range es {
				if mentions(e, m) {
					used = true
				}
				ne, ok := renameExpr(e, m, map[string]int{})
				if !ok {
					return nil
				}
				n.ModSets[k] = append(n.ModSets[k], ne)
			}
		}
	}
	_ = used
	n.Renamed = m
	return &n
}

// Jet-level contracts name the parameters in jetalias/jetresult/jetoperands and, in their expressions, as
// <param>, <param>_<Field>, post_<param>, post_<param>_<Field>.
func jetName(x string, m map[string]string) string {
	if nn, ok := m[x]; ok {
		return nn
	}
	if strings.HasPrefix(x, "post_") {
		return "post_" + jetName(x[len("post_"):], m)
	}
	if k := strings.Index(x, "_"); k > 0 {
		if nn, ok := m[x[:k]]; ok {
			return nn + x[k:]
		}
	}
	return x
}

func renameJetExpr(e *Expr, m map[string]string) *Expr {
	if e == nil {
		return nil
	}
	n := *e
	if e.Kind == "ident" {
		if nn := jetName(e.Name, m); nn != e.Name {
			n.Name = nn
			n.Src = ""
		}
		return &n
	}
	n.Args = make([]*Expr, len(e.Args))
	for i, a := range e.Args {
		n.Args[i] = renameJetExpr(a, m)
	}
	return &n
}

func renameJetContract(c *Contract, m map[string]string) *Contract {
	n := *c
	n.Clauses = nil
	for _, cl := range c.Clauses {
		if len(cl.E.allVars()) > 0 {
			return nil // binders in a jet clause: not handled, keep the contract as written
		}
		k := *cl
		k.E = renameJetExpr(cl.E, m)
		n.Clauses = append(n.Clauses, &k)
	}
	n.JetAlias = nil
	for _, a := range c.JetAlias {
		ps := strings.Split(a, "=")
		for i := range ps {
			ps[i] = jetName(strings.TrimSpace(ps[i]), m)
		}
		n.JetAlias = append(n.JetAlias, strings.Join(ps, "="))
	}
	n.JetResult = jetName(c.JetResult, m)
	n.JetOperands = nil
	for _, o := range c.JetOperands {
		n.JetOperands = append(n.JetOperands, jetName(o, m))
	}
	n.Renamed = m
	return &n
}

func (e *Expr) allVars() []QVar {
	if e == nil {
		return nil
	}
	out := append([]QVar(nil), e.Vars...)
	for _, a := range e.Args {
		out = append(out, a.allVars()...)
	}
	return out
}

func readLocals(path string) map[string][]string {
	tab := map[string][]string{}
	if data, err := os.ReadFile(path); err == nil {
		json.Unmarshal(data, &tab)
	}
	return tab
}

// applyRenames rewrites the contracts of functions whose declared names were purely renamed since the
// table was recorded; it returns a note per rewritten function.
func (V *Verifier) applyRenames(path string) []string {
	tab := readLocals(path)
	var notes []string
	for key, fn := range V.funcs {
		c := V.byFunc[fn]
		if c == nil {
			continue
		}
		old, ok := tab[key]
		if !ok {
			continue
		}
		cur := declNames(fn)
		m := renameMap(old, cur)
		if m == nil {
			continue
		}
		mParams := map[string]string{}
		for i := 0; i < nParamNames(fn) && i < len(old); i++ {
			if old[i] != cur[i] {
				mParams[old[i]] = cur[i]
			}
		}
		if nc := renameContract(c, m, mParams); nc != nil {
			V.byFunc[fn] = nc
			var ps []string
			for a, b := range m {
				ps = append(ps, a+"->"+b)
			}
			sort.Strings(ps)
			notes = append(notes, key+": "+strings.Join(ps, " "))
		}
	}
	sort.Strings(notes)
	return notes
}

func (V *Verifier) writeLocals(path string) {
	tab := readLocals(path)
	for key, fn := range V.funcs {
		if V.byFunc[fn] == nil {
			continue
		}
		if ns := declNames(fn); ns != nil {
			tab[key] = ns
		}
	}
	data, _ := json.MarshalIndent(tab, "", " ")
	os.WriteFile(path, append(data, '\n'), 0644)
}
