package main

// Calls (contracts, inlining, externs, builtins), loops, and the per-function driver.

import (
	"sync"
	"fmt"
	"go/constant"
	"go/token"
	"go/types"
	"sort"
	"strings"

	"golang.org/x/tools/go/ssa"
)

// ---------------------------------------------------------------------------
// component specs ("Real64.Value", "[]float64", "map[int]Float64", "*")

func (ex *Exec) compsOfSpec(spec string, c *CEnv) []string {
	V := ex.V
	spec = strings.TrimSpace(spec)
	resolve := func(s string) types.Type {
		if c != nil {
			return c.resolveType(s)
		}
		ce := &CEnv{ex: ex, pkg: ex.fn.Pkg.Pkg}
		return ce.resolveType(s)
	}
	switch {
	case spec == "*":
		return []string{"*"}
	case strings.HasPrefix(spec, "[]"):
		t := resolve(spec[2:])
		comp, s := V.elemComp(t)
		ex.noteComp(comp, s)
		return []string{comp}
	case strings.HasPrefix(spec, "map["):
		t := resolve(spec)
		hc, hs, vc, vs := V.mapComps(t.Underlying().(*types.Map))
		ex.noteComp(hc, hs)
		ex.noteComp(vc, vs)
		return []string{hc, vc}
	case strings.HasPrefix(spec, "G:"):
		return []string{spec}
	}
	k := strings.LastIndex(spec, ".")
	if k < 0 {
		ex.fail("bad component spec %q", spec)
	}
	t := resolve(spec[:k])
	si := V.structOf(t)
	var out []string
	for i := 0; i < si.st.NumFields(); i++ {
		f := si.st.Field(i)
		if isStruct(f.Type()) {
			continue
		}
		if spec[k+1:] == "*" || f.Name() == spec[k+1:] {
			comp, s := V.fieldComp(si, i)
			ex.noteComp(comp, s)
			out = append(out, comp)
		}
	}
	if len(out) == 0 {
		ex.fail("component spec %q matches nothing", spec)
	}
	return out
}

func (ex *Exec) noteComp(comp string, s *Sort) {
	if _, ok := ex.allComps[comp]; !ok {
		ex.allComps[comp] = s
	}
	compSortsMu.Lock()
	if _, ok := compSorts[comp]; !ok {
		compSorts[comp] = s
	}
	compSortsMu.Unlock()
}

// compSorts remembers the sort of every component ever noted by any Exec: modification sets of
// callees are memoised globally (modMemo), so an Exec can be handed a component name it has not
// resolved itself (second and later instances of a schema calling the same callee).
var compSorts = map[string]*Sort{}
var compSortsMu sync.Mutex

func (ex *Exec) sortOfComp(c string) *Sort {
	if s := ex.allComps[c]; s != nil {
		return s
	}
	compSortsMu.Lock()
	s := compSorts[c]
	compSortsMu.Unlock()
	if s != nil {
		ex.allComps[c] = s
	}
	return s
}

var epochCtr int

// havoc replaces components by fresh arrays; "*" havocs everything.
func (ex *Exec) havoc(st *State, comps []string, tag string) {
	for _, c := range comps {
		if c == "*" {
			epochCtr++
			names := make([]string, 0, len(ex.allComps))
			for n := range ex.allComps {
				names = append(names, n)
			}
			sort.Strings(names)
			for _, n := range names {
				st.heap[n] = Fresh(n+"@"+tag, ex.allComps[n])
			}
			ex.fail("havoc-all (modifies *) is not supported: give %s a modifies clause", tag)
			return
		}
	}
	for _, c := range comps {
		s := ex.sortOfComp(c)
		if s == nil {
			ex.fail("havoc of unknown component %s", c)
		}
		nh := Fresh(c+"@"+tag, s)
		st.heap[c] = nh
		if ax := ex.closureAxiom(c, nh, st.alloc); ax != True {
			ex.assume(ax)
			ex.markLow(ax)
		}
	}
}

// ---------------------------------------------------------------------------
// modification sets (syntactic, conservative)

type modSet map[string]bool

func (ex *Exec) storeComps(addr ssa.Value, out modSet) {
	V := ex.V
	pt, ok := addr.Type().Underlying().(*types.Pointer)
	if !ok {
		out["*"] = true
		return
	}
	if isStruct(pt.Elem()) {
		ex.structComps(V.structOf(pt.Elem()), out)
		return
	}
	if fa, ok := addr.(*ssa.FieldAddr); ok {
		si := V.structOf(fa.X.Type().Underlying().(*types.Pointer).Elem())
		comp, s := V.fieldComp(si, fa.Field)
		ex.noteComp(comp, s)
		out[comp] = true
		return
	}
	if g, ok := addr.(*ssa.Global); ok {
		out["G:"+V.qual(g.Pkg.Pkg)+"."+g.Name()] = true
		ex.noteComp("G:"+V.qual(g.Pkg.Pkg)+"."+g.Name(), V.sortOf(pt.Elem()))
		return
	}
	et := pt.Elem()
	if at, ok := et.Underlying().(*types.Array); ok {
		et = at.Elem()
	}
	comp, s := V.elemComp(et)
	ex.noteComp(comp, s)
	out[comp] = true
}

func (ex *Exec) structComps(si *structInfo, out modSet) {
	for i := 0; i < si.st.NumFields(); i++ {
		f := si.st.Field(i)
		if isStruct(f.Type()) {
			ex.structComps(ex.V.structOf(f.Type()), out)
			continue
		}
		comp, s := ex.V.fieldComp(si, i)
		ex.noteComp(comp, s)
		out[comp] = true
	}
}

var modMemo = map[*ssa.Function]modSet{}
var modMemoNF = map[*ssa.Function]modSet{}
var modBusy = map[*ssa.Function]bool{}

func (ex *Exec) modOfFunc(fn *ssa.Function) modSet {
	if m, ok := modMemo[fn]; ok {
		return m
	}
	if modBusy[fn] {
		return modSet{"*": true}
	}
	modBusy[fn] = true
	defer delete(modBusy, fn)
	out := modSet{}
	if con := ex.V.contractFor(fn); con != nil && con.HasMod && !con.Inline {
		for _, m := range con.Modifies {
			for _, c := range ex.compsOfSpec(m, &CEnv{ex: ex, pkg: fn.Pkg.Pkg}) {
				out[c] = true
			}
		}
		modMemo[fn] = out
		return out
	}
	if len(fn.Blocks) == 0 {
		if ex.V.externPure(fn) {
			modMemo[fn] = out
			return out
		}
		out["*"] = true
		modMemo[fn] = out
		return out
	}
	nf := modSet{}
	ex.modOfBlocksF(fn.Blocks, out, nf)
	modMemo[fn] = out
	modMemoNF[fn] = nf
	return out
}

// isAllocInBlocks: the value is an Alloc instruction located in one of the given blocks.
func isAllocIn(v ssa.Value, in map[*ssa.BasicBlock]bool) bool {
	a, ok := v.(*ssa.Alloc)
	return ok && in[a.Block()]
}

func (ex *Exec) modOfBlocks(blocks []*ssa.BasicBlock, out modSet) {
	ex.modOfBlocksF(blocks, out, nil)
}

// modOfBlocksF additionally records in notFresh every component that may be written at a
// location that was not allocated inside these blocks.
func (ex *Exec) modOfBlocksF(blocks []*ssa.BasicBlock, out modSet, notFresh modSet) {
	V := ex.V
	inSet := map[*ssa.BasicBlock]bool{}
	for _, b := range blocks {
		inSet[b] = true
	}
	snapshot := func() modSet {
		m := modSet{}
		for c := range out {
			m[c] = true
		}
		return m
	}
	for _, b := range blocks {
		for _, in := range b.Instrs {
			switch x := in.(type) {
			case *ssa.Store:
				fresh := false
				if fa, ok := x.Addr.(*ssa.FieldAddr); ok && isAllocIn(fa.X, inSet) {
					fresh = true
				}
				if isAllocIn(x.Addr, inSet) {
					fresh = true
				}
				if fresh {
					ex.storeComps(x.Addr, out)
				} else {
					before := snapshot()
					tmp := modSet{}
					ex.storeComps(x.Addr, tmp)
					for c := range tmp {
						out[c] = true
						if notFresh != nil {
							notFresh[c] = true
						}
					}
					_ = before
				}
			case *ssa.Alloc:
				ex.storeComps(x, out)
			case *ssa.MakeSlice:
				comp, s := V.elemComp(x.Type().Underlying().(*types.Slice).Elem())
				ex.noteComp(comp, s)
				out[comp] = true
			case *ssa.MakeMap:
				hc, hs, vc, vs := V.mapComps(x.Type().Underlying().(*types.Map))
				ex.noteComp(hc, hs)
				ex.noteComp(vc, vs)
				out[hc] = true
				out[vc] = true
			case *ssa.MapUpdate:
				hc, hs, vc, vs := V.mapComps(x.Map.Type().Underlying().(*types.Map))
				ex.noteComp(hc, hs)
				ex.noteComp(vc, vs)
				out[hc] = true
				out[vc] = true
				if notFresh != nil {
					notFresh[hc] = true
					notFresh[vc] = true
				}
			case *ssa.Call:
				tmp := modSet{}
				ex.modOfCall(&x.Call, tmp)
				var calleeNF modSet
				if callee, ok := x.Call.Value.(*ssa.Function); ok && !x.Call.IsInvoke() {
					if nf, ok := modMemoNF[callee]; ok {
						calleeNF = nf // inlined callee: writes into its own allocations stay fresh
					}
				}
				for c := range tmp {
					out[c] = true
					if notFresh != nil && (calleeNF == nil || calleeNF[c]) {
						notFresh[c] = true
					}
				}
			case *ssa.Range:
				if mt, ok := x.X.Type().Underlying().(*types.Map); ok {
					comp, cs := V.rangeComp(mt)
					ex.noteComp(comp, cs)
					out[comp] = true
				}
			case *ssa.Next:
				if rg, ok := x.Iter.(*ssa.Range); ok {
					if mt, ok := rg.X.Type().Underlying().(*types.Map); ok {
						comp, cs := V.rangeComp(mt)
						ex.noteComp(comp, cs)
						out[comp] = true
						if notFresh != nil {
							notFresh[comp] = true
						}
					}
				}
			case *ssa.Defer, *ssa.Go:
				out["*"] = true
			}
		}
	}
}

func (ex *Exec) modOfCall(cc *ssa.CallCommon, out modSet) {
	V := ex.V
	if cc.IsInvoke() {
		if con := V.ifaceContract(cc); con != nil && con.HasMod {
			for _, m := range con.Modifies {
				for _, c := range ex.compsOfSpec(m, &CEnv{ex: ex, pkg: V.ppkgs[con.Pkg].Types}) {
					out[c] = true
				}
			}
			return
		}
		out["*"] = true
		return
	}
	switch callee := cc.Value.(type) {
	case *ssa.Builtin:
		switch callee.Name() {
		case "append", "copy":
			if st, ok := cc.Args[0].Type().Underlying().(*types.Slice); ok {
				comp, s := V.elemComp(st.Elem())
				ex.noteComp(comp, s)
				out[comp] = true
			}
		case "delete":
			hc, hs, vc, vs := V.mapComps(cc.Args[0].Type().Underlying().(*types.Map))
			ex.noteComp(hc, hs)
			ex.noteComp(vc, vs)
			out[hc] = true
			out[vc] = true
		}
	case *ssa.Function:
		for c := range ex.modOfFunc(callee) {
			out[c] = true
		}
	case *ssa.MakeClosure:
		for c := range ex.modOfFunc(callee.Fn.(*ssa.Function)) {
			out[c] = true
		}
	default:
		// call through a function value: assumed not to write caller-visible state (listed assumption)
	}
}

// ---------------------------------------------------------------------------
// loops

func (ex *Exec) loopClauses(fr *Frame, li *loopInfo, kind string) []*Clause {
	if !fr.top || ex.con == nil {
		return nil
	}
	var out []*Clause
	for _, cl := range ex.con.Clauses {
		if cl.Kind == kind && cl.Loop == li.ordinal {
			out = append(out, cl)
		}
	}
	return out
}

func (ex *Exec) loopEnv(fr *Frame, st *State, over map[string]*CVal, reach *Term) *CEnv {
	vars := map[string]*CVal{}
	for k, v := range ex.paramCVals() {
		vars[k] = v
	}
	for k, v := range over {
		vars[k] = v
	}
	return &CEnv{ex: ex, vars: vars, st: st, old: ex.st0, pkg: ex.fn.Pkg.Pkg, fr: fr, reach: reach}
}

func (ex *Exec) paramCVals() map[string]*CVal {
	out := map[string]*CVal{}
	for n, v := range ex.params {
		out[n] = &CVal{T: ex.termOf(v), Typ: ex.paramTyp[n]}
	}
	for n, v := range ex.ghostOld {
		out[n] = &CVal{T: v.T}
	}
	return out
}

func (ex *Exec) enterLoop(fr *Frame, li *loopInfo, ins []edgeIn) (*State, *Term) {
	b := li.head
	entrySt, entryReach := ex.mergeStates(ins)
	// entry values of phis
	over := map[string]*CVal{}
	var phis []*ssa.Phi
	for _, in := range b.Instrs {
		phi, ok := in.(*ssa.Phi)
		if !ok {
			break
		}
		phis = append(phis, phi)
		var conds []*Term
		var vals []*Val
		for _, e := range ins {
			conds = append(conds, e.reach)
			vals = append(vals, ex.value(fr, phi.Edges[predIndex(b, e.from)]))
		}
		v := ex.mergeVals(conds, vals)
		if phi.Comment != "" && v.Tup == nil {
			over[phi.Comment] = &CVal{T: ex.termOf(v), Typ: phi.Type()}
		}
	}
	invs := ex.loopClauses(fr, li, "invariant")
	for k, cl := range invs {
		env := ex.loopEnv(fr, entrySt, over, entryReach)
		v, err := env.Eval(cl.E)
		if err != nil {
			ex.fail("loop %d invariant: %v", li.ordinal, err)
		}
		label := fmt.Sprintf("%d.%d", li.ordinal, k+1)
		if cl.Name != "" {
			label = fmt.Sprintf("%d.%s", li.ordinal, cl.Name)
		}
		ex.oblige("inv.init", label, entryReach, v.T, cl.Src)
	}
	// modification set of the loop body
	ms := modSet{}
	notFresh := modSet{}
	var blocks []*ssa.BasicBlock
	for bb := range li.body {
		blocks = append(blocks, bb)
	}
	ex.modOfBlocksF(blocks, ms, notFresh)
	if fr.top && ex.con != nil {
		for _, m := range ex.con.LoopMods[li.ordinal] {
			for _, c := range ex.compsOfSpec(m, nil) {
				ms[c] = true
			}
		}
	}
	var comps []string
	for c := range ms {
		comps = append(comps, c)
	}
	sort.Strings(comps)
	hst := entrySt.clone()
	tag := fmt.Sprintf("L%d", li.ordinal)
	if !fr.top {
		tag = fmt.Sprintf("L%d.%s", li.ordinal, fr.prefix)
	}
	na := Fresh("alloc@"+tag, SInt)
	ex.assume(Implies(entryReach, Ge(na, entrySt.alloc)))
	hst.alloc = na
	ex.havoc(hst, comps, tag)
	// components the loop writes only inside objects it allocates itself: everything that existed at
	// loop entry is unchanged (sound by induction over the iterations, no user invariant needed)
	for _, c := range comps {
		if notFresh[c] || strings.HasPrefix(c, "G:") {
			continue
		}
		before := ex.heapGet(entrySt, c, ex.allComps[c])
		after := hst.heap[c]
		q := Const("lf?"+c, SInt)
		ex.assume(Implies(entryReach, Forall([]*Term{q}, Implies(And(Le(IntLit(0), q), Lt(q, entrySt.alloc)), Eq(Select(after, q), Select(before, q))))))
	}
	hover := map[string]*CVal{}
	for _, phi := range phis {
		if _, isTuple := phi.Type().(*types.Tuple); isTuple {
			ex.fail("tuple phi")
		}
		t := Fresh(fmt.Sprintf("%s@%s", phiName(phi), tag), ex.V.sortOf(phi.Type()))
		fr.vals[phi] = &Val{T: t}
		if phi.Comment != "" {
			fr.names[phi.Comment] = phi
			hover[phi.Comment] = &CVal{T: t, Typ: phi.Type()}
		}
		ex.noteLoaded(t, phi.Type(), hst, entryReach)
		// syntactic monotonicity: phi' = phi + c on every back edge  ==>  phi >= (<=) its entry value
		if t.S == SInt {
			dir := 0
			okMono := true
			var entryVals []*Term
			for pi, e := range phi.Edges {
				pred := b.Preds[pi]
				if li.body[pred] && b.Dominates(pred) {
					bo, ok := e.(*ssa.BinOp)
					if !ok || bo.X != ssa.Value(phi) {
						okMono = false
						break
					}
					c, ok := bo.Y.(*ssa.Const)
					if !ok || c.Value == nil {
						okMono = false
						break
					}
					cv, exact := constInt64(c)
					if !exact {
						okMono = false
						break
					}
					d := 0
					switch {
					case bo.Op == token.ADD && cv > 0, bo.Op == token.SUB && cv < 0:
						d = 1
					case bo.Op == token.ADD && cv < 0, bo.Op == token.SUB && cv > 0:
						d = -1
					default:
						okMono = false
					}
					if dir != 0 && d != dir {
						okMono = false
					}
					dir = d
				} else {
					entryVals = append(entryVals, ex.termOf(ex.value(fr, e)))
				}
			}
			if okMono && dir != 0 {
				for _, ev := range entryVals {
					if len(entryVals) == 1 {
						if dir > 0 {
							ex.assume(Implies(entryReach, Ge(t, ev)))
						} else {
							ex.assume(Implies(entryReach, Le(t, ev)))
						}
					}
				}
			}
		}
	}
	for _, cl := range invs {
		env := ex.loopEnv(fr, hst, hover, entryReach)
		v, err := env.Eval(cl.E)
		if err != nil {
			ex.fail("loop %d invariant: %v", li.ordinal, err)
		}
		ex.assume(Implies(entryReach, v.T))
	}
	if len(invs) == 0 && fr.top {
		ex.loopsWithoutInv = append(ex.loopsWithoutInv, fmt.Sprintf("%s loop %d", ex.name, li.ordinal))
	}
	li.headSt = hst.clone()
	li.decHead = nil
	decs := ex.loopClauses(fr, li, "decreases")
	for _, cl := range decs {
		env := ex.loopEnv(fr, hst, hover, entryReach)
		v, err := env.Eval(cl.E)
		if err != nil {
			ex.fail("loop %d decreases: %v", li.ordinal, err)
		}
		li.decHead = append(li.decHead, v.T)
	}
	if len(decs) == 0 && fr.top {
		ex.termNotShown = append(ex.termNotShown, fmt.Sprintf("%s loop %d", ex.name, li.ordinal))
	}
	return hst, entryReach
}

func phiName(phi *ssa.Phi) string {
	if phi.Comment != "" {
		return phi.Comment
	}
	return phi.Name()
}

func (ex *Exec) backEdge(fr *Frame, li *loopInfo, from *ssa.BasicBlock, reach *Term, st *State) {
	b := li.head
	over := map[string]*CVal{}
	idx := predIndex(b, from)
	for _, in := range b.Instrs {
		phi, ok := in.(*ssa.Phi)
		if !ok {
			break
		}
		v := ex.value(fr, phi.Edges[idx])
		if phi.Comment != "" && v.Tup == nil {
			over[phi.Comment] = &CVal{T: ex.termOf(v), Typ: phi.Type()}
		}
	}
	// the header phis are bound to their fresh header constants in fr.vals; names in `over` shadow them
	for k, cl := range ex.loopClauses(fr, li, "invariant") {
		env := ex.loopEnv(fr, st, over, reach)
		env.fr = &Frame{ex: ex, fn: fr.fn, vals: fr.vals, names: namesWithout(fr.names, over)}
		v, err := env.Eval(cl.E)
		if err != nil {
			ex.fail("loop %d invariant: %v", li.ordinal, err)
		}
		label := fmt.Sprintf("%d.%d", li.ordinal, k+1)
		if cl.Name != "" {
			label = fmt.Sprintf("%d.%s", li.ordinal, cl.Name)
		}
		ex.oblige("inv.keep", label, reach, v.T, cl.Src)
	}
	for k, cl := range ex.loopClauses(fr, li, "decreases") {
		env := ex.loopEnv(fr, st, over, reach)
		env.fr = &Frame{ex: ex, fn: fr.fn, vals: fr.vals, names: namesWithout(fr.names, over)}
		v, err := env.Eval(cl.E)
		if err != nil {
			ex.fail("loop %d decreases: %v", li.ordinal, err)
		}
		h := li.decHead[k]
		ex.oblige("dec", fmt.Sprintf("%d", li.ordinal), reach, And(Le(IntLit(0), h), Lt(v.T, h)), cl.Src)
	}
}

func namesWithout(names map[string]ssa.Value, over map[string]*CVal) map[string]ssa.Value {
	out := map[string]ssa.Value{}
	for k, v := range names {
		if _, ok := over[k]; !ok {
			out[k] = v
		}
	}
	return out
}

// ---------------------------------------------------------------------------
// calls

func (V *Verifier) contractFor(fn *ssa.Function) *Contract {
	return V.byFunc[fn]
}

func (V *Verifier) ifaceContract(cc *ssa.CallCommon) *Contract {
	recv := cc.Method.Type().(*types.Signature).Recv()
	names := []string{}
	if recv != nil {
		names = append(names, V.typeName(recv.Type())+"."+cc.Method.Name())
	}
	names = append(names, V.typeName(cc.Value.Type())+"."+cc.Method.Name())
	for _, n := range names {
		if c, ok := V.byName[n]; ok {
			return c
		}
	}
	return nil
}

var boxTypes = map[string]types.Type{}

func (ex *Exec) call(fr *Frame, x *ssa.Call, st *State, reach *Term) *Val {
	V := ex.V
	cc := &x.Call
	var args []*Val
	for _, a := range cc.Args {
		args = append(args, ex.value(fr, a))
	}
	if cc.IsInvoke() {
		recv := ex.value(fr, cc.Value).T
		// static dispatch when the dynamic type is syntactically known
		if strings.HasPrefix(recv.Op, "C:box:") {
			tn := recv.Op[6:]
			if t, ok := boxTypes[tn]; ok {
				if m := V.prog.LookupMethod(t, cc.Method.Pkg(), cc.Method.Name()); m != nil {
					all := append([]*Val{{T: recv.Args[0]}}, args...)
					return ex.callStatic(fr, m, all, st, reach, ex.posStr(x))
				}
			}
		}
		con := V.ifaceContract(cc)
		if con == nil {
			ex.fail("blocked-by: interface method %s.%s has no contract", V.typeName(cc.Value.Type()), cc.Method.Name())
		}
		ex.safe("nil", reach, Neq(recv, NilIface), ex.posStr(x))
		sig := cc.Method.Type().(*types.Signature)
		names := []string{"self"}
		typs := []types.Type{cc.Value.Type()}
		for i := 0; i < sig.Params().Len(); i++ {
			n := sig.Params().At(i).Name()
			if n == "" || n == "_" {
				n = fmt.Sprintf("arg%d", i)
			}
			names = append(names, n)
			typs = append(typs, sig.Params().At(i).Type())
		}
		all := append([]*Val{{T: recv}}, args...)
		return ex.applyContract(con, V.typeName(cc.Value.Type())+"."+cc.Method.Name(), names, typs, sig.Results(), all, st, reach, V.ppkgs[con.Pkg].Types)
	}
	switch callee := cc.Value.(type) {
	case *ssa.Builtin:
		return ex.builtin(fr, x, callee.Name(), args, st, reach)
	case *ssa.Function:
		return ex.callStatic(fr, callee, args, st, reach, ex.posStr(x))
	case *ssa.MakeClosure:
		fv := ex.value(fr, callee)
		return ex.callFuncValue(fv.T, callee.Type(), args, st, reach, false)
	default:
		fv := ex.value(fr, cc.Value)
		return ex.callFuncValue(fv.T, cc.Value.Type(), args, st, reach, false)
	}
}

// callFuncValue calls a function value (closure or unknown function parameter).
func (ex *Exec) callFuncValue(f *Term, ftyp types.Type, args []*Val, st *State, reach *Term, pureOnly bool) *Val {
	if clo, ok := ex.closures[f]; ok {
		fr := ex.newFrame(clo.Fn, ex.curDepth()+1, false)
		for i, fv := range clo.Fn.FreeVars {
			fr.free[fv] = clo.Bindings[i]
		}
		return ex.inline(fr, args, st, reach)
	}
	// unknown function value: uninterpreted, pure and deterministic (listed assumption)
	var sig *types.Signature
	if ftyp != nil {
		sig, _ = ftyp.Underlying().(*types.Signature)
	}
	if sig == nil {
		ex.fail("call of untyped function value")
	}
	targs := []*Term{f}
	for _, a := range args {
		targs = append(targs, ex.termOf(a))
	}
	// the result may depend on the values of scalars at the time of the call (closures such as
	// LogErfc's read a.GetFloat64() lazily): the value fields are part of the function's input
	for _, comp := range []string{"F:Real64.Value", "F:Real32.Value"} {
		if s, ok := ex.allComps[comp]; ok {
			targs = append(targs, ex.heapGet(st, comp, s))
		}
	}
	name := "apply:" + ex.V.typeName(sig)
	res := sig.Results()
	switch res.Len() {
	case 0:
		return &Val{}
	case 1:
		return &Val{T: App(name, ex.V.sortOf(res.At(0).Type()), targs...)}
	}
	out := &Val{}
	for i := 0; i < res.Len(); i++ {
		out.Tup = append(out.Tup, &Val{T: App(fmt.Sprintf("%s#%d", name, i), ex.V.sortOf(res.At(i).Type()), targs...)})
	}
	return out
}

func (ex *Exec) curDepth() int {
	if ex.curFrame != nil {
		return ex.curFrame.depth
	}
	return 0
}

func (ex *Exec) callStatic(fr *Frame, fn *ssa.Function, args []*Val, st *State, reach *Term, pos string) *Val {
	V := ex.V
	if con := V.contractFor(fn); con != nil && !con.Inline && fn != ex.fn || (con != nil && fn == ex.fn) {
		var names []string
		var typs []types.Type
		for _, p := range fn.Params {
			names = append(names, p.Name())
			typs = append(typs, p.Type())
		}
		return ex.applyContract(con, relFuncName(fn), names, typs, fn.Signature.Results(), args, st, reach, fn.Pkg.Pkg)
	}
	if len(fn.Blocks) == 0 || V.opaquePkg(fn) {
		return ex.extern(fn, args, st, reach)
	}
	if fr.depth >= V.opts.InlineMax {
		ex.fail("blocked-by: inline depth exceeded at %s", relFuncName(fn))
	}
	// recursion guard
	for f := fr; f != nil; f = f.parent {
		if f.fn == fn {
			ex.fail("blocked-by: recursive call of %s without contract", relFuncName(fn))
		}
	}
	nf := ex.newFrame(fn, fr.depth+1, false)
	nf.prefix = relFuncName(fn)
	ex.inlined[relFuncName(fn)] = true
	return ex.inline(nf, args, st, reach)
}

// inline executes a callee in place and merges its return points into st.
func (ex *Exec) inline(nf *Frame, args []*Val, st *State, reach *Term) *Val {
	if nf.depth > ex.V.opts.InlineMax {
		ex.fail("blocked-by: inline depth exceeded at %s", relFuncName(nf.fn))
	}
	rets := ex.execFunc(nf, args, st.clone(), reach)
	if len(rets) == 0 {
		ex.assume(Implies(reach, False))
		return ex.zeroResults(nf.fn.Signature.Results())
	}
	var ins []edgeIn
	retReach := False
	for _, r := range rets {
		ins = append(ins, edgeIn{nil, r.reach, r.st})
		retReach = Or(retReach, r.reach)
	}
	ms, _ := ex.mergeStates(ins)
	st.heap = ms.heap
	st.alloc = ms.alloc
	ex.assume(Implies(reach, retReach))
	nres := nf.fn.Signature.Results().Len()
	if nres == 0 {
		return &Val{}
	}
	var conds []*Term
	for _, r := range rets {
		conds = append(conds, r.reach)
	}
	out := &Val{}
	for i := 0; i < nres; i++ {
		var vs []*Val
		for _, r := range rets {
			vs = append(vs, r.vals[i])
		}
		out.Tup = append(out.Tup, ex.mergeVals(conds, vs))
	}
	if nres == 1 {
		return out.Tup[0]
	}
	return out
}

func (ex *Exec) zeroResults(res *types.Tuple) *Val {
	switch res.Len() {
	case 0:
		return &Val{}
	case 1:
		return &Val{T: ex.V.zeroOf(res.At(0).Type())}
	}
	out := &Val{}
	for i := 0; i < res.Len(); i++ {
		out.Tup = append(out.Tup, &Val{T: ex.V.zeroOf(res.At(i).Type())})
	}
	return out
}

// applyContract: assert pre, record panic, havoc frame, assume post.
func (ex *Exec) applyContract(con *Contract, cname string, names []string, typs []types.Type, results *types.Tuple, args []*Val, st *State, reach *Term, pkg *types.Package) *Val {
	ex.usedContracts[cname] = true
	if con.Trusted {
		ex.trusted[cname] = true
	}
	vars := map[string]*CVal{}
	for i, n := range names {
		if args[i].Tup != nil {
			ex.fail("tuple argument")
		}
		vars[n] = &CVal{T: ex.termOf(args[i]), Typ: typs[i]}
	}
	// callers' site clauses name the callee's parameters: keep the recorded names usable after a rename
	for oldn, nw := range con.Renamed {
		if v, ok := vars[nw]; ok {
			if _, clash := vars[oldn]; !clash {
				vars[oldn] = v
			}
		}
	}
	pre := st.clone()
	env := &CEnv{ex: ex, vars: vars, st: pre, old: pre, pkg: pkg, reach: reach}
	k := 0
	var panicConds []*Term
	hasPanics := false
	for _, cl := range con.Clauses {
		switch cl.Kind {
		case "requires":
			k++
			v, err := env.Eval(cl.E)
			if err != nil {
				ex.fail("contract of %s: requires: %v", cname, err)
			}
			label := fmt.Sprintf("%s.%d", cname, k)
			ex.oblige("pre", label, reach, v.T, cl.Src)
			ex.assume(Implies(reach, v.T))
		case "panics_when", "may_panic":
			hasPanics = true
			v, err := env.Eval(cl.E)
			if err != nil {
				ex.fail("contract of %s: panics_when: %v", cname, err)
			}
			panicConds = append(panicConds, v.T)
		}
	}
	if ex.con != nil && ex.curFrame != nil && ex.curFrame.top {
		short := cname
		if k2 := strings.LastIndex(cname, "."); k2 >= 0 {
			short = cname[k2+1:]
		}
		ns := 0
		for _, cl := range ex.con.Clauses {
			if cl.Kind != "site" {
				continue
			}
			match := false
			for _, alt := range strings.Split(cl.Callee, "|") {
				if alt == short || alt == cname {
					match = true
				}
			}
			if !match {
				continue
			}
			ns++
			// a site clause may also name the parameters of the function under contract (the caller),
			// unless a parameter of the callee has the same name
			senv := env
			if len(ex.params) > 0 {
				sv := map[string]*CVal{}
				for n, pv := range ex.params {
					if pv != nil && pv.T != nil && ex.paramTyp[n] != nil {
						sv[n] = &CVal{T: ex.termOf(pv), Typ: ex.paramTyp[n]}
					}
				}
				for n, cv := range vars {
					sv[n] = cv
				}
				senv = &CEnv{ex: ex, vars: sv, st: pre, old: pre, pkg: pkg, reach: reach}
			}
			v, err := senv.Eval(cl.E)
			if err != nil {
				ex.fail("site %s: %v", cl.Callee, err)
			}
			label := fmt.Sprintf("%s.%d", short, ns)
			if cl.Name != "" {
				label = short + "." + cl.Name
			}
			ex.oblige("site", label, reach, v.T, cl.Src)
			ex.assume(Implies(reach, v.T))
		}
	}
	if hasPanics {
		pc := Or(panicConds...)
		if pc != False {
			ex.panics = append(ex.panics, panicPoint{And(reach, pc), st.clone(), "call " + cname, "", len(ex.assumes)})
			ex.assume(Implies(reach, Not(pc)))
		}
	}
	// frame
	if !con.HasMod {
		ex.fail("blocked-by: contract of %s has no modifies clause", cname)
	}
	ex.counters["callsite"]++
	tag := fmt.Sprintf("c%d", ex.counters["callsite"])
	if !con.Pure {
		na := Fresh("alloc@"+tag, SInt)
		ex.assume(Implies(reach, Ge(na, st.alloc)))
		st.alloc = na
	}
	for _, m := range con.Modifies {
		comps := ex.compsOfSpec(m, &CEnv{ex: ex, pkg: pkg})
		restricted := false
		var es []*Expr
		if e2, ok := con.ModSets[m]; ok {
			restricted = true
			es = e2
		}
		for _, c := range comps {
			before := ex.heapGet(st, c, ex.allComps[c])
			ex.havoc(st, []string{c}, tag)
			if restricted {
				after := st.heap[c]
				if strings.HasPrefix(c, "G:") {
					continue
				}
				q := Const("mf?"+c, SInt)
				notIn, err := ex.notInSet(env, es, q)
				if err != nil {
					ex.fail("contract of %s: modifies set: %v", cname, err)
				}
				if after.S.B.K == KArr {
					k2 := Const("mk?"+c, after.S.B.A)
					ex.assume(Implies(reach, Forall([]*Term{q, k2}, Implies(notIn, Eq(Select(Select(after, q), k2), Select(Select(before, q), k2))))))
				} else {
					ex.assume(Implies(reach, Forall([]*Term{q}, Implies(notIn, Eq(Select(after, q), Select(before, q))))))
				}
			}
		}
	}
	// results
	post := &CEnv{ex: ex, vars: map[string]*CVal{}, st: st, old: pre, pkg: pkg, reach: reach}
	for n, v := range vars {
		post.vars[n] = v
	}
	out := &Val{}
	for i := 0; i < results.Len(); i++ {
		rt := results.At(i).Type()
		t := Fresh(fmt.Sprintf("ret@%s", tag), ex.V.sortOf(rt))
		out.Tup = append(out.Tup, &Val{T: t})
		cv := &CVal{T: t, Typ: rt}
		post.vars[fmt.Sprintf("result%d", i)] = cv
		if i == 0 {
			post.vars["result"] = cv
		}
		if n := results.At(i).Name(); n != "" && n != "_" {
			post.vars[n] = cv
		}
		ex.noteLoaded(t, rt, st, reach)
	}
	for _, cl := range con.Clauses {
		switch cl.Kind {
		case "ensures":
			v, err := post.Eval(cl.E)
			if err != nil {
				ex.fail("contract of %s: ensures: %v", cname, err)
			}
			ex.assume(Implies(reach, v.T))
		case "errors_when":
			v, err := env.Eval(cl.E)
			if err != nil {
				ex.fail("contract of %s: errors_when: %v", cname, err)
			}
			last := out.Tup[len(out.Tup)-1].T
			ex.assume(Implies(reach, Eq(Neq(last, NilIface), v.T)))
		}
	}
	switch len(out.Tup) {
	case 0:
		return &Val{}
	case 1:
		return out.Tup[0]
	}
	return out
}

// notInSet: q is not a member of the reference set described by es (evaluated in env).
func (ex *Exec) notInSet(env *CEnv, es []*Expr, q *Term) (*Term, error) {
	var cs []*Term
	for _, e := range es {
		if e.Kind == "setcomp" {
			v, err := env.bind(e.Name, &CVal{T: q}).Eval(e.Args[0])
			if err != nil {
				return nil, err
			}
			cs = append(cs, Not(v.T))
			continue
		}
		v, err := env.Eval(e)
		if err != nil {
			return nil, err
		}
		cs = append(cs, Neq(q, refOf(v.T)))
	}
	return And(cs...), nil
}

// refOf: the reference (struct ref / storage base) a value denotes.
func refOf(t *Term) *Term {
	switch t.S {
	case SSlice:
		return Acc("sbase", t)
	case SPtr:
		return Acc("pbase", t)
	}
	return t
}

// ---------------------------------------------------------------------------
// externs and builtins

func (V *Verifier) opaquePkg(fn *ssa.Function) bool {
	if fn.Pkg == nil {
		return false
	}
	p := fn.Pkg.Pkg.Path()
	return p == "math" || strings.HasSuffix(p, "/special") || p == "fmt" || p == "errors" || p == "reflect" || p == "strconv" || p == "strings" || p == "sort" || p == "os" || p == "bytes" || p == "encoding/json"
}

func (V *Verifier) externPure(fn *ssa.Function) bool {
	if fn.Pkg == nil {
		return false
	}
	p := fn.Pkg.Pkg.Path()
	return p == "math" || strings.HasSuffix(p, "/special") || p == "fmt" || p == "errors" || p == "reflect" || p == "strconv" || p == "strings"
}

func (ex *Exec) extern(fn *ssa.Function, args []*Val, st *State, reach *Term) *Val {
	V := ex.V
	pkg := ""
	if fn.Pkg != nil {
		pkg = fn.Pkg.Pkg.Path()
	}
	name := fn.Name()
	res := fn.Signature.Results()
	if pkg == "math" {
		switch name {
		case "Abs":
			a := args[0].T
			return &Val{T: Ite(Ge(a, RealOfInt(0)), a, Neg(a))}
		case "Inf":
			return &Val{T: Ite(Ge(args[0].T, IntLit(0)), App("pinf", SReal), App("ninf", SReal))}
		case "NaN":
			return &Val{T: App("nan", SReal)}
		case "IsNaN":
			return &Val{T: App("isnan", SBool, args[0].T)}
		case "IsInf":
			a := args[0].T
			s := args[1].T
			return &Val{T: Or(And(Ge(s, IntLit(0)), Eq(a, App("pinf", SReal))), And(Le(s, IntLit(0)), Eq(a, App("ninf", SReal))))}
		case "Max":
			return &Val{T: Ite(Ge(args[0].T, args[1].T), args[0].T, args[1].T)}
		case "Min":
			return &Val{T: Ite(Le(args[0].T, args[1].T), args[0].T, args[1].T)}
		case "Signbit":
			return &Val{T: Lt(args[0].T, RealOfInt(0))}
		}
		var ts []*Term
		for _, a := range args {
			ts = append(ts, a.T)
		}
		if name == "Pow" {
			return &Val{T: PowTerm(ts[0], ts[1])}
		}
		if res.Len() == 1 {
			return &Val{T: App(strings.ToLower(name), V.sortOf(res.At(0).Type()), ts...)}
		}
		if name == "Lgamma" {
			return &Val{Tup: []*Val{{T: App("lgamma", SReal, ts...)}, {T: App("lgammasign", SInt, ts...)}}}
		}
	}
	if strings.HasSuffix(pkg, "/special") {
		var ts []*Term
		ok := true
		for _, a := range args {
			if a.T == nil || (a.T.S != SReal && a.T.S != SInt && a.T.S != SBool) {
				ok = false
			} else {
				ts = append(ts, a.T)
			}
		}
		if ok && res.Len() == 1 {
			return &Val{T: App(strings.ToLower(name), V.sortOf(res.At(0).Type()), ts...)}
		}
	}
	if pkg == "fmt" || pkg == "errors" {
		switch name {
		case "Errorf", "New":
			ex.counters["err"]++
			return &Val{T: mk("C:box-other", SIface, IntLit(-1), Fresh("err", SInt))}
		case "Sprintf", "Sprint", "Sprintln":
			return &Val{T: Fresh("str", SInt)}
		}
	}
	if pkg == "reflect" && name == "TypeOf" {
		return &Val{T: mk("C:box-other", SIface, IntLit(-2), App("dyntype", SInt, args[0].T))}
	}
	ex.fail("blocked-by: external function %s", fn.String())
	return nil
}

func (ex *Exec) builtin(fr *Frame, x *ssa.Call, name string, args []*Val, st *State, reach *Term) *Val {
	V := ex.V
	switch name {
	case "len":
		switch x.Call.Args[0].Type().Underlying().(type) {
		case *types.Slice:
			return &Val{T: Acc("slen", args[0].T)}
		case *types.Map:
			t := App("maplen", SInt, args[0].T, ex.mapHasRow(x.Call.Args[0].Type(), args[0].T, st))
			ex.assume(Implies(reach, Ge(t, IntLit(0))))
			return &Val{T: t}
		case *types.Basic:
			t := App("strlen", SInt, args[0].T)
			ex.assume(Ge(t, IntLit(0)))
			return &Val{T: t}
		case *types.Array:
			return &Val{T: IntLit(x.Call.Args[0].Type().Underlying().(*types.Array).Len())}
		}
	case "cap":
		if _, ok := x.Call.Args[0].Type().Underlying().(*types.Slice); ok {
			return &Val{T: Acc("scap", args[0].T)}
		}
	case "delete":
		mt := x.Call.Args[0].Type().Underlying().(*types.Map)
		hc, hs, _, _ := V.mapComps(mt)
		hh := ex.heapGet(st, hc, hs)
		m := args[0].T
		ex.heapSet(st, hc, Store(hh, m, Store(Select(hh, m), ex.termOf(args[1]), False)))
		return &Val{}
	case "copy":
		stp, ok := x.Call.Args[0].Type().Underlying().(*types.Slice)
		if !ok {
			break
		}
		if _, ok := x.Call.Args[1].Type().Underlying().(*types.Slice); !ok {
			break
		}
		comp, s := V.elemComp(stp.Elem())
		dst, src := args[0].T, args[1].T
		n := Ite(Le(Acc("slen", dst), Acc("slen", src)), Acc("slen", dst), Acc("slen", src))
		h := ex.heapGet(st, comp, s)
		ex.counters["copy"]++
		nh := Fresh(fmt.Sprintf("%s@copy%d", comp, ex.counters["copy"]), s)
		b := Const(fmt.Sprintf("cb?%d", ex.counters["copy"]), SInt)
		i := Const(fmt.Sprintf("ci?%d", ex.counters["copy"]), SInt)
		db, do, sb, so := Acc("sbase", dst), Acc("soff", dst), Acc("sbase", src), Acc("soff", src)
		inDst := And(Eq(b, db), Le(do, i), Lt(i, Add(do, n)))
		ex.assume(Implies(reach, Forall([]*Term{b, i}, Eq(Select(Select(nh, b), i),
			Ite(inDst, Select(Select(h, sb), Add(so, Sub(i, do))), Select(Select(h, b), i))))))
		ex.heapSet(st, comp, nh)
		return &Val{T: n}
	case "append":
		stp := x.Call.Args[0].Type().Underlying().(*types.Slice)
		if _, ok := x.Call.Args[1].Type().Underlying().(*types.Slice); !ok {
			break
		}
		comp, s := V.elemComp(stp.Elem())
		dst, src := args[0].T, args[1].T
		ex.counters["append"]++
		k := ex.counters["append"]
		h := ex.heapGet(st, comp, s)
		nh := Fresh(fmt.Sprintf("%s@app%d", comp, k), s)
		newLen := Add(Acc("slen", dst), Acc("slen", src))
		inPlace := Le(newLen, Acc("scap", dst))
		fb := ex.allocRef(st, 1)
		ncap := Fresh(fmt.Sprintf("cap@app%d", k), SInt)
		ex.assume(Implies(reach, Ge(ncap, newLen)))
		rb := Ite(inPlace, Acc("sbase", dst), fb)
		ro := Ite(inPlace, Acc("soff", dst), IntLit(0))
		rc := Ite(inPlace, Acc("scap", dst), ncap)
		b := Const(fmt.Sprintf("ab?%d", k), SInt)
		i := Const(fmt.Sprintf("ai?%d", k), SInt)
		db, do, dl := Acc("sbase", dst), Acc("soff", dst), Acc("slen", dst)
		sb, so, sl := Acc("sbase", src), Acc("soff", src), Acc("slen", src)
		old := Select(Select(h, b), i)
		inNew := And(Eq(b, rb), Le(Add(ro, dl), i), Lt(i, Add(Add(ro, dl), sl)))
		inCopied := And(Not(inPlace), Eq(b, fb), Le(IntLit(0), i), Lt(i, dl))
		val := Ite(inNew, Select(Select(h, sb), Add(so, Sub(i, Add(ro, dl)))),
			Ite(inCopied, Select(Select(h, db), At(do, i)), old))
		ex.assume(Implies(reach, Forall([]*Term{b, i}, Eq(Select(Select(nh, b), i), val))))
		ex.heapSet(st, comp, nh)
		return &Val{T: MkSlice(rb, ro, newLen, rc)}
	case "print", "println":
		return &Val{}
	}
	ex.fail("unsupported builtin %s(%s)", name, x.Call.Args[0].Type())
	return nil
}

func (ex *Exec) mapHasRow(t types.Type, m *Term, st *State) *Term {
	hc, hs, _, _ := ex.V.mapComps(t.Underlying().(*types.Map))
	return Select(ex.heapGet(st, hc, hs), m)
}

func constInt64(c *ssa.Const) (int64, bool) {
	if c.Value == nil || c.Value.Kind() != constant.Int {
		return 0, false
	}
	return constant.Int64Val(c.Value)
}
