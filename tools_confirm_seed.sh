#!/bin/bash
# usage: tools_confirm_seed.sh <seeddir>...  -- confirm a seeded change in a scratch worktree:
# builds, existing tests of the package concerned pass, demonstration fails with the change and passes without it.
export GOFLAGS=-mod=mod GOPROXY=off GOSUMDB=off GOTOOLCHAIN=local
for d0 in "$@"; do
  d=$(readlink -f "$d0")
  name=$(basename $d)
  wt=/tmp/confirm_$name
  rm -rf $wt; git -C /repo worktree add -q --detach $wt HEAD || continue
  demo=$(ls $d/*_test.go | head -1)
  pkg=$(grep -m1 '^package ' $demo | awk '{print $2}')
  dir=$(python3 -c "import json,sys; print(json.load(open('$d/meta.json')).get('demo_dir',''))" 2>/dev/null)
  if [ -z "$dir" ]; then
    if [ "$pkg" = autodiff ]; then dir=.; else dir=$(cd $wt && find . -type d -name "$pkg" | head -1); fi
  fi
  ( cd $wt/$dir
    cp $demo ./zz_seed_demo_test.go
    run=$(grep -o "func Test[A-Za-z0-9_]*" zz_seed_demo_test.go | sed 's/func //' | paste -sd'|')
    base=$(go test -vet=off -count=1 -run "^($run)\$" . 2>&1 | tail -1)
    (cd $wt && git apply $d/patch.diff)
    build=$(cd $wt && go build ./... 2>&1 | tail -1)
    with=$(go test -vet=off -count=1 -run "^($run)\$" . 2>&1 | grep -E "^(ok|FAIL|---)" | tail -1)
    rm zz_seed_demo_test.go
    suite=$(go test -vet=off -count=1 . 2>&1 | tail -1)
    extra=""
    if [ "$dir" != . ] && (cd $wt && git diff --name-only | grep -qv /); then
      extra=" | root suite with change: $(cd $wt && go test -vet=off -count=1 . 2>&1 | tail -1)"
    fi
    echo "$name | demo dir: $dir | demo without change: $base | build: ${build:-ok} | demo with change: $with | existing suite of $dir with change: $suite$extra"
  ) | tee $d/confirmed.txt
  git -C /repo worktree remove --force $wt
done
