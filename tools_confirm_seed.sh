#!/bin/bash
# usage: tools_confirm_seed.sh <seeddir>...  -- confirm a seeded change in a scratch worktree:
# builds, existing root-package tests pass, demonstration fails with the change and passes without it.
export GOFLAGS=-mod=mod GOPROXY=off GOSUMDB=off GOTOOLCHAIN=local
for d0 in "$@"; do
  d=$(readlink -f "$d0")
  name=$(basename $d)
  wt=/tmp/confirm_$name
  rm -rf $wt; git -C /repo worktree add -q --detach $wt HEAD || continue
  demo=$(ls $d/*_test.go | head -1)
  res="{}"
  ( cd $wt
    cp $demo ./zz_seed_demo_test.go
    run=$(grep -o "func Test[A-Za-z0-9_]*" zz_seed_demo_test.go | sed 's/func //' | paste -sd'|')
    base=$(go test -vet=off -count=1 -run "^($run)\$" . 2>&1 | tail -1)
    git apply $d/patch.diff
    build=$(go build ./... 2>&1 | tail -1)
    with=$(go test -vet=off -count=1 -run "^($run)\$" . 2>&1 | grep -E "^(ok|FAIL|---)" | tail -1)
    rm zz_seed_demo_test.go
    suite=$(go test -vet=off -count=1 . 2>&1 | tail -1)
    echo "$name | demo without change: $base | build: ${build:-ok} | demo with change: $with | existing root suite with change: $suite"
  ) | tee $d/confirmed.txt
  git -C /repo worktree remove --force $wt
done
