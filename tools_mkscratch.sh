#!/bin/sh
# usage: tools_mkscratch.sh <dir>  -- a blind scratch copy of /repo's HEAD for a seeding sub-agent:
# own git repository (one commit "base"), no verification hook files, nothing from /verif
d=$1
rm -rf "$d"; mkdir -p "$d" || exit 2
git -C /repo archive HEAD | tar -x -C "$d"
find "$d" -name 'zz_contracts*_verif.go' -delete
cd "$d" && git init -q . && git add -A && git -c user.name=builder -c user.email=b@x commit -q -m base && mkdir -p out && echo "scratch ready: $d"
