#!/usr/bin/env python3
# Generates MANIFEST.json from the table below (single source of truth for claims).
import json, subprocess
BASE = json.load(open('/root/.vp/BASELINE.json'))
NA_FINAL = {
    "C18": "JSON goes through encoding/json (reflection) and the table / configuration formats through fmt and strconv string conversion; neither is inside the SSA subset the VC generator and the bounded interpreter model, and string theory was rejected for the solvers (DESIGN §6).",
 "C13": "ulp-level accuracy of float64 special-function code against the true transcendental function is not expressible in real arithmetic with uninterpreted functions nor decidable in the FP theory (DESIGN §6).",
 "C15": "equality of the log-space forward/backward/Viterbi recursions with path enumeration needs induction over the sequence in a log-sum-exp semiring (AC reasoning over an uninterpreted operator), outside what the generator and the solvers can discharge (DESIGN §6).",
 "C16": "likelihood optimality and EM monotonicity are theorems of analysis (stationarity, Jensen) about whole data sets, not postconditions a solver can decide (DESIGN §6).",
 "C17": "schedule independence, races and deadlock are concurrency properties; the VC generator models sequential Go only (DESIGN §6).",
}
CLAIMS = json.load(open('/verif/claims.json'))
checks = []
for pid in sorted(CLAIMS):
    c = CLAIMS[pid]
    checks.append({
        "property_id": pid,
        "quick_cmd": f"./check {pid} --tier quick",
        "thorough_cmd": f"./check {pid} --tier thorough",
        "evidence_file": f"/verif/evidence/{pid}.json",
        "replay_cmd_template": "./check-replay {path}",
        "engine": "govc",
        "level_claimed": {"category": c["category"], "text": c["text"], "design_ref": "DESIGN.md §3 "+pid},
        "level_note": c["note"],
        "technique": c["technique"],
    })
na = []
for i in range(1, 21):
    pid = f"C{i:02d}"
    if pid in CLAIMS:
        continue
    if pid in NA_FINAL:
        na.append({"property_id": pid, "reason": NA_FINAL[pid]})
    else:
        na.append({"property_id": pid, "reason": "no contract-based check within reach has been built for this property in this session (see DESIGN.md §1); not claimed."})
hooks_commits = subprocess.run(["git", "-C", "/repo", "log", "--format=%h %s", "--grep=^verif hook"], capture_output=True, text=True).stdout.strip().splitlines()
m = {
 "version": 1,
 "setup_cmd": "cd /verif/engine && GOFLAGS=-mod=mod GOPROXY=off GOSUMDB=off GOTOOLCHAIN=local go build -o /verif/bin/govc .",
 "hooks": {
   "guard": "verif",
   "enable": "govc loads /repo with go/packages BuildFlags -tags verif; the hooks are comment-only files zz_contracts*_verif.go (//go:build verif) holding the //@ contracts",
   "baseline_off_cmd": BASE["cmd"],
   "source_commits": hooks_commits,
   "add_only": True,
 },
 "engines": [{"name": "govc", "path": "/verif/engine", "serves_properties": sorted(CLAIMS), "kind_free_text": "contract-based deductive verifier for Go written for this task: weakest-precondition style VC generation over go/ssa of the real packages, contracts in //@ comments, obligations discharged by z3 4.8.12 / z3 5.1.0 / cvc5 1.0.3 (sympy for exact real-field identities); includes the jet-level checker for composite scalar programs and bsym, a bounded symbolic interpreter of the same SSA used for the properties claimed as bounded (category other)"}],
 "checks": checks,
 "not_applicable": na,
 "notes": "See DESIGN.md. Known findings: /verif/known_findings.txt. Expected obligation lists: /verif/expected/.",
}
json.dump(m, open('/verif/MANIFEST.json', 'w'), indent=1)
print("claimed:", sorted(CLAIMS), "n/a:", [x["property_id"] for x in na])
