#!/usr/bin/env python3
# debug helper: evaluate named subterms of the last assert of an smt2 file in a model
import sys,re,subprocess
f=sys.argv[1]
txt=open(f).read()
txt=re.sub(r'\(get-value.*\)\s*$','',txt,flags=re.S)
lines=txt.strip().split('\n')
last=[l for l in lines if l.startswith('(assert')][-1]
names=sorted(set(re.findall(r'\$n\d+',last)),key=lambda s:int(s[2:]))
extra=sys.argv[2:]
defs={}
for l in lines:
    m=re.match(r'\(define-fun (\$n\d+) \(\) (\S+|\(.*?\)) (.*)\)$',l)
    if m: defs[m.group(1)]=(m.group(2),m.group(3))
q=txt+'\n(get-value ('+' '.join(names+extra)+'))\n'
open('/tmp/dbg.smt2','w').write(q)
out=subprocess.run(['z3-new','-T:30','/tmp/dbg.smt2'],capture_output=True,text=True).stdout
print(out[:6000])
for n in names:
    print(n,'=',defs.get(n,('',''))[1][:200])
