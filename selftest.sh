#!/bin/bash
# Must-fail corpus: applies every seeded change under /verif/seeded to a scratch worktree of /repo's HEAD
# (GOVC_REPO points the checker at it; /repo itself is not touched), runs the quick check of its property,
# and records whether the check reported a violation.
# usage: selftest.sh [seed-name ...]     (default: all); writes /verif/seeded/RESULTS.md
cd /verif || exit 2
wt=/tmp/selftest_repo
git -C /repo worktree remove --force $wt 2>/dev/null; rm -rf $wt
git -C /repo worktree add -q --detach $wt HEAD || exit 2
seeds="$@"; all=0; [ -z "$seeds" ] && { seeds=$(ls seeded | grep -E '^C[0-9]+-[0-9]+$'); all=1; }
out=/tmp/selftest_results.md
echo "| seed | property check | result | first reported obligation |" > $out
echo "|---|---|---|---|" >> $out
for s in $seeds; do
  prop=${s%%-*}
  d=/verif/seeded/$s
  git -C $wt checkout -q --detach $(git -C /repo rev-parse HEAD)   # always the latest committed tree
  if ! git -C $wt apply --check $d/patch.diff 2>/dev/null; then
    echo "| $s | $prop | patch no longer applies (the code it changed was repaired since) | |" >> $out; echo "$s n/a"; continue
  fi
  git -C $wt apply $d/patch.diff
  log=$(GOVC_REPO=$wt ./bin/govc check --prop $prop --tier quick --no-evidence 2>&1)
  git -C $wt checkout -- .
  v=$(echo "$log" | grep -c '^VIOLATION')
  first=$(echo "$log" | grep '^VIOLATION' | head -1 | sed 's/.*obligation=//' | awk '{print $1}' | cut -c1-110)
  repro=$(echo "$log" | grep '^VIOLATION' | grep -vc 'no-failing-input-found')
  if [ "$v" -gt 0 ]; then res="caught ($v violations, $repro with a replayed failing input)"; else res="MISSED"; fi
  echo "| $s | $prop | $res | \`$first\` |" >> $out
  echo "$s $res"
done
git -C /repo worktree remove --force $wt
if [ $all = 1 ]; then cp $out seeded/RESULTS.md; else cat $out; fi
