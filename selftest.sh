#!/bin/bash
# Must-fail corpus: applies every seeded change under /verif/seeded to /repo (which must be clean), runs the
# quick check of its property, undoes the change, and records whether the check reported a violation.
# usage: selftest.sh [seed-name ...]     (default: all); writes /verif/seeded/RESULTS.md
cd /verif || exit 2
if [ -n "$(git -C /repo status --porcelain)" ]; then echo "/repo is not clean"; exit 2; fi
seeds="$@"; [ -z "$seeds" ] && seeds=$(ls seeded | grep -E '^C[0-9]+-[0-9]+$')
out=seeded/RESULTS.md.new
echo "| seed | property check | result | first reported obligation |" > $out
echo "|---|---|---|---|" >> $out
for s in $seeds; do
  prop=${s%%-*}
  d=/verif/seeded/$s
  if ! git -C /repo apply --check $d/patch.diff 2>/dev/null; then
    echo "| $s | $prop | patch no longer applies (code it changed was repaired) | |" >> $out; continue
  fi
  git -C /repo apply $d/patch.diff
  log=$(./check $prop --no-evidence 2>&1)
  git -C /repo checkout -- .
  v=$(echo "$log" | grep -c '^VIOLATION')
  first=$(echo "$log" | grep '^VIOLATION' | head -1 | sed 's/.*obligation=//' | cut -c1-110)
  repro=$(echo "$log" | grep '^VIOLATION' | grep -vc 'no-failing-input-found')
  if [ "$v" -gt 0 ]; then res="caught ($v violations, $repro with a replayed failing input)"; else res="MISSED"; fi
  echo "| $s | $prop | $res | \`$first\` |" >> $out
  echo "$s $res"
done
mv $out seeded/RESULTS.md
