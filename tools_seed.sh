#!/bin/sh
# usage: tools_seed.sh <prop> <seeddir>   -- apply seeded patch to /repo, run the check, undo
prop=$1; d=$2
cd /repo || exit 2
git apply --check $d/patch.diff || { echo "patch does not apply"; exit 2; }
git apply $d/patch.diff
cd /verif && ./check $prop --no-evidence 2>&1 | grep -E "^VIOLATION|^property|KNOWN" | cut -c1-260 | head -8
cd /repo && git checkout -- . && git status --short | head -3
