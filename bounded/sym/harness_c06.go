package autodiff

// C06 (bounded): derivative of a matrix product carried by Real64 matrices:
// d(AB)_ij / dA_kl = [i == k] B_lj,  d(AB)_ij / dB_kl = A_ik [l == j]; values equal the Float64 product.

import "fmt"

func GovcC06MdotMDerivative() {
  n := 2
  a0 := govcSymVals("a", n*n)
  b0 := govcSymVals("b", n*n)
  a := NullDenseReal64Matrix(n, n)
  b := NullDenseReal64Matrix(n, n)
  var vars []MagicScalar
  for i := 0; i < n; i++ {
    for j := 0; j < n; j++ {
      a.At(i, j).SetFloat64(a0[i*n+j])
      vars = append(vars, a.At(i, j).(MagicScalar))
    }
  }
  for i := 0; i < n; i++ {
    for j := 0; j < n; j++ {
      b.At(i, j).SetFloat64(b0[i*n+j])
      vars = append(vars, b.At(i, j).(MagicScalar))
    }
  }
  Variables(1, vars...)
  c := NullDenseReal64Matrix(n, n)
  c.MdotM(a, b)
  f := NullDenseFloat64Matrix(n, n)
  f.MdotM(NewDenseFloat64Matrix(append([]float64{}, a0...), n, n), NewDenseFloat64Matrix(append([]float64{}, b0...), n, n))
  for i := 0; i < n; i++ {
    for j := 0; j < n; j++ {
      cij := c.ConstAt(i, j)
      govcCheckEq(fmt.Sprintf("float=real[%d,%d]", i, j), f.ConstAt(i, j).GetFloat64(), cij.GetFloat64())
      govcCheckEq(fmt.Sprintf("value[%d,%d]", i, j), cij.GetFloat64(), a0[i*n]*b0[j]+a0[i*n+1]*b0[n+j])
      for k := 0; k < n; k++ {
        for l := 0; l < n; l++ {
          ea, eb := 0.0, 0.0
          if i == k {
            ea = b0[l*n+j]
          }
          if l == j {
            eb = a0[i*n+k]
          }
          govcCheckEq(fmt.Sprintf("dC[%d,%d]/dA[%d,%d]", i, j, k, l), cij.GetDerivative(k*n+l), ea)
          govcCheckEq(fmt.Sprintf("dC[%d,%d]/dB[%d,%d]", i, j, k, l), cij.GetDerivative(n*n+k*n+l), eb)
        }
      }
    }
  }
}

// Jacobian and Hessian helpers: the matrices of first / second partial derivatives of the supplied
// function at a symbolic point; the point itself is left unchanged (no derivatives activated on it).
func GovcC06JacobianHessian() {
  x0, x1 := govcSym("x0"), govcSym("x1")
  govcAssume(x1 != 0.0)
  x := NewDenseReal64Vector([]float64{x0, x1})
  f := func(v ConstVector) ConstVector {
    r := NullDenseReal64Vector(2)
    t := NullReal64()
    // f0 = v0*v1*v1 + v0,  f1 = v0/v1
    t.Mul(v.ConstAt(0), v.ConstAt(1))
    t.Mul(t, v.ConstAt(1))
    r.At(0).Add(t, v.ConstAt(0))
    r.At(1).Div(v.ConstAt(0), v.ConstAt(1))
    return r
  }
  g := func(v ConstVector) ConstScalar {
    // g = v0*v0*v1 + v1*v1*v1
    t := NullReal64()
    s := NullReal64()
    t.Mul(v.ConstAt(0), v.ConstAt(0))
    t.Mul(t, v.ConstAt(1))
    s.Mul(v.ConstAt(1), v.ConstAt(1))
    s.Mul(s, v.ConstAt(1))
    r := NullReal64()
    r.Add(t, s)
    return r
  }
  wantJ := []float64{x1*x1 + 1, 2*x0*x1, 1/x1, -x0/(x1*x1)}
  wantH := []float64{2*x1, 2*x0, 2*x0, 6*x1}
  for k, m := range []Matrix{NullDenseFloat64Matrix(2, 2), NullSparseFloat64Matrix(2, 2), NullDenseReal64Matrix(2, 2)} {
    for i := 0; i < 2; i++ {
      for j := 0; j < 2; j++ {
        m.At(i, j).SetFloat64(7.0)
      }
    }
    m.Jacobian(f, x)
    for i := 0; i < 2; i++ {
      for j := 0; j < 2; j++ {
        govcCheckEq(fmt.Sprintf("J%d[%d,%d]", k, i, j), m.ConstAt(i, j).GetFloat64(), wantJ[i*2+j])
      }
    }
    m.Hessian(g, x)
    for i := 0; i < 2; i++ {
      for j := 0; j < 2; j++ {
        govcCheckEq(fmt.Sprintf("H%d[%d,%d]", k, i, j), m.ConstAt(i, j).GetFloat64(), wantH[i*2+j])
      }
    }
  }
  govcCheck("x-unchanged-order", x.ConstAt(0).GetOrder() == 0 && x.ConstAt(1).GetOrder() == 0)
  govcCheckEq("x-unchanged[0]", x.ConstAt(0).GetFloat64(), x0)
  govcCheckEq("x-unchanged[1]", x.ConstAt(1).GetFloat64(), x1)
}

// C12 (bounded): Clone / CloneMatrix / CloneVector of containers, including views, share no storage with
// their source: a write to the clone is invisible in the source and vice versa
func GovcC12CloneIndependence() {
  x, y := govcSym("x"), govcSym("y")
  mk := func(kind int) Matrix {
    var m Matrix
    switch kind {
    case 0:
      m = NullDenseFloat64Matrix(3, 3)
    case 1:
      m = NullDenseReal64Matrix(3, 3)
    default:
      m = NullSparseFloat64Matrix(3, 3)
    }
    for i := 0; i < 3; i++ {
      for j := 0; j < 3; j++ {
        m.At(i, j).SetFloat64(float64(10*i+j+1))
      }
    }
    return m
  }
  for kind := 0; kind < 3; kind++ {
    for view := 0; view < 3; view++ {
      if kind == 2 && view == 2 {
        continue // T() of a sparse matrix is no reference view (known finding C10)
      }
      root := mk(kind)
      var src Matrix
      switch view {
      case 0:
        src = root
      case 1:
        src = root.Slice(1, 3, 0, 2)
      default:
        src = root.Slice(0, 2, 1, 3).T()
      }
      c := src.CloneMatrix()
      n, m := src.Dims()
      // write to the clone: source unchanged
      c.At(0, 1).SetFloat64(x)
      // write to the source: clone unchanged (except the cell written above)
      src.At(1, 0).SetFloat64(y)
      tag := fmt.Sprintf("clone[kind%d,view%d]", kind, view)
      govcCheckEq(tag+":src[0,1]", src.ConstAt(0, 1).GetFloat64(), rootValue(kind, view, 0, 1))
      govcCheckEq(tag+":clone[1,0]", c.ConstAt(1, 0).GetFloat64(), rootValue(kind, view, 1, 0))
      govcCheckEq(tag+":clone[0,1]", c.ConstAt(0, 1).GetFloat64(), x)
      govcCheckEq(tag+":src[1,0]", src.ConstAt(1, 0).GetFloat64(), y)
      for i := 0; i < n; i++ {
        for j := 0; j < m; j++ {
          if (i == 0 && j == 1) || (i == 1 && j == 0) {
            continue
          }
          govcCheckEq(fmt.Sprintf("%s:clone[%d,%d]", tag, i, j), c.ConstAt(i, j).GetFloat64(), rootValue(kind, view, i, j))
        }
      }
    }
  }
  // vectors
  dv := NewDenseReal64Vector([]float64{1, 2, 3})
  cv := dv.CloneVector()
  cv.At(0).SetFloat64(x)
  dv.At(1).SetFloat64(y)
  govcCheckEq("real-vector:src[0]", dv.ConstAt(0).GetFloat64(), 1.0)
  govcCheckEq("real-vector:clone[1]", cv.ConstAt(1).GetFloat64(), 2.0)
  sv := NewSparseFloat64Vector([]int{0, 2}, []float64{1, 3}, 3)
  cs := sv.CloneVector()
  cs.At(0).SetFloat64(x)
  cs.At(1).SetFloat64(x)
  sv.At(2).SetFloat64(y)
  govcCheckEq("sparse-vector:src[0]", sv.ConstAt(0).GetFloat64(), 1.0)
  govcCheckEq("sparse-vector:src[1]", sv.ConstAt(1).GetFloat64(), 0.0)
  govcCheckEq("sparse-vector:clone[2]", cs.ConstAt(2).GetFloat64(), 3.0)
}

// element (i,j) of the view `view` of the 3x3 matrix with entries 10 r + c + 1
func rootValue(kind, view, i, j int) float64 {
  switch view {
  case 0:
    return float64(10*i + j + 1)
  case 1:
    return float64(10*(i+1) + j + 1)
  default:
    return float64(10*j + (i + 1) + 1)
  }
}
