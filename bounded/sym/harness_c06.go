package autodiff

// C06 (bounded): derivative of a matrix product carried by Real64 matrices:
// d(AB)_ij / dA_kl = [i == k] B_lj,  d(AB)_ij / dB_kl = A_ik [l == j]; values equal the Float64 product.

import "fmt"

func GovcC06MdotMDerivative() {
  n := 2
  a0 := govcSymVals("a", n*n)
  b0 := govcSymVals("b", n*n)
  a := NullDenseReal64Matrix(n, n)
  b := NullDenseReal64Matrix(n, n)
  var vars []MagicScalar
  for i := 0; i < n; i++ {
    for j := 0; j < n; j++ {
      a.At(i, j).SetFloat64(a0[i*n+j])
      vars = append(vars, a.At(i, j).(MagicScalar))
    }
  }
  for i := 0; i < n; i++ {
    for j := 0; j < n; j++ {
      b.At(i, j).SetFloat64(b0[i*n+j])
      vars = append(vars, b.At(i, j).(MagicScalar))
    }
  }
  Variables(1, vars...)
  c := NullDenseReal64Matrix(n, n)
  c.MdotM(a, b)
  f := NullDenseFloat64Matrix(n, n)
  f.MdotM(NewDenseFloat64Matrix(append([]float64{}, a0...), n, n), NewDenseFloat64Matrix(append([]float64{}, b0...), n, n))
  for i := 0; i < n; i++ {
    for j := 0; j < n; j++ {
      cij := c.ConstAt(i, j)
      govcCheckEq(fmt.Sprintf("float=real[%d,%d]", i, j), f.ConstAt(i, j).GetFloat64(), cij.GetFloat64())
      govcCheckEq(fmt.Sprintf("value[%d,%d]", i, j), cij.GetFloat64(), a0[i*n]*b0[j]+a0[i*n+1]*b0[n+j])
      for k := 0; k < n; k++ {
        for l := 0; l < n; l++ {
          ea, eb := 0.0, 0.0
          if i == k {
            ea = b0[l*n+j]
          }
          if l == j {
            eb = a0[i*n+k]
          }
          govcCheckEq(fmt.Sprintf("dC[%d,%d]/dA[%d,%d]", i, j, k, l), cij.GetDerivative(k*n+l), ea)
          govcCheckEq(fmt.Sprintf("dC[%d,%d]/dB[%d,%d]", i, j, k, l), cij.GetDerivative(n*n+k*n+l), eb)
        }
      }
    }
  }
}
