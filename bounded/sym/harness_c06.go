package autodiff

// C06 (bounded): derivative of a matrix product carried by Real64 matrices:
// d(AB)_ij / dA_kl = [i == k] B_lj,  d(AB)_ij / dB_kl = A_ik [l == j]; values equal the Float64 product.

import "fmt"

func GovcC06MdotMDerivative() {
  n := 2
  a0 := govcSymVals("a", n*n)
  b0 := govcSymVals("b", n*n)
  a := NullDenseReal64Matrix(n, n)
  b := NullDenseReal64Matrix(n, n)
  var vars []MagicScalar
  for i := 0; i < n; i++ {
    for j := 0; j < n; j++ {
      a.At(i, j).SetFloat64(a0[i*n+j])
      vars = append(vars, a.At(i, j).(MagicScalar))
    }
  }
  for i := 0; i < n; i++ {
    for j := 0; j < n; j++ {
      b.At(i, j).SetFloat64(b0[i*n+j])
      vars = append(vars, b.At(i, j).(MagicScalar))
    }
  }
  Variables(1, vars...)
  c := NullDenseReal64Matrix(n, n)
  c.MdotM(a, b)
  f := NullDenseFloat64Matrix(n, n)
  f.MdotM(NewDenseFloat64Matrix(append([]float64{}, a0...), n, n), NewDenseFloat64Matrix(append([]float64{}, b0...), n, n))
  for i := 0; i < n; i++ {
    for j := 0; j < n; j++ {
      cij := c.ConstAt(i, j)
      govcCheckEq(fmt.Sprintf("float=real[%d,%d]", i, j), f.ConstAt(i, j).GetFloat64(), cij.GetFloat64())
      govcCheckEq(fmt.Sprintf("value[%d,%d]", i, j), cij.GetFloat64(), a0[i*n]*b0[j]+a0[i*n+1]*b0[n+j])
      for k := 0; k < n; k++ {
        for l := 0; l < n; l++ {
          ea, eb := 0.0, 0.0
          if i == k {
            ea = b0[l*n+j]
          }
          if l == j {
            eb = a0[i*n+k]
          }
          govcCheckEq(fmt.Sprintf("dC[%d,%d]/dA[%d,%d]", i, j, k, l), cij.GetDerivative(k*n+l), ea)
          govcCheckEq(fmt.Sprintf("dC[%d,%d]/dB[%d,%d]", i, j, k, l), cij.GetDerivative(n*n+k*n+l), eb)
        }
      }
    }
  }
}

// Jacobian and Hessian helpers: the matrices of first / second partial derivatives of the supplied
// function at a symbolic point; the point itself is left unchanged (no derivatives activated on it).
func GovcC06JacobianHessian() {
  x0, x1 := govcSym("x0"), govcSym("x1")
  govcAssume(x1 != 0.0)
  x := NewDenseReal64Vector([]float64{x0, x1})
  f := func(v ConstVector) ConstVector {
    r := NullDenseReal64Vector(2)
    t := NullReal64()
    // f0 = v0*v1*v1 + v0,  f1 = v0/v1
    t.Mul(v.ConstAt(0), v.ConstAt(1))
    t.Mul(t, v.ConstAt(1))
    r.At(0).Add(t, v.ConstAt(0))
    r.At(1).Div(v.ConstAt(0), v.ConstAt(1))
    return r
  }
  g := func(v ConstVector) ConstScalar {
    // g = v0*v0*v1 + v1*v1*v1
    t := NullReal64()
    s := NullReal64()
    t.Mul(v.ConstAt(0), v.ConstAt(0))
    t.Mul(t, v.ConstAt(1))
    s.Mul(v.ConstAt(1), v.ConstAt(1))
    s.Mul(s, v.ConstAt(1))
    r := NullReal64()
    r.Add(t, s)
    return r
  }
  wantJ := []float64{x1*x1 + 1, 2*x0*x1, 1/x1, -x0/(x1*x1)}
  wantH := []float64{2*x1, 2*x0, 2*x0, 6*x1}
  for k, m := range []Matrix{NullDenseFloat64Matrix(2, 2), NullSparseFloat64Matrix(2, 2), NullDenseReal64Matrix(2, 2)} {
    for i := 0; i < 2; i++ {
      for j := 0; j < 2; j++ {
        m.At(i, j).SetFloat64(7.0)
      }
    }
    m.Jacobian(f, x)
    for i := 0; i < 2; i++ {
      for j := 0; j < 2; j++ {
        govcCheckEq(fmt.Sprintf("J%d[%d,%d]", k, i, j), m.ConstAt(i, j).GetFloat64(), wantJ[i*2+j])
      }
    }
    m.Hessian(g, x)
    for i := 0; i < 2; i++ {
      for j := 0; j < 2; j++ {
        govcCheckEq(fmt.Sprintf("H%d[%d,%d]", k, i, j), m.ConstAt(i, j).GetFloat64(), wantH[i*2+j])
      }
    }
  }
  govcCheck("x-unchanged-order", x.ConstAt(0).GetOrder() == 0 && x.ConstAt(1).GetOrder() == 0)
  govcCheckEq("x-unchanged[0]", x.ConstAt(0).GetFloat64(), x0)
  govcCheckEq("x-unchanged[1]", x.ConstAt(1).GetFloat64(), x1)
}
