package generic

// C15 (bounded): a hidden Markov model with 2 states and 2 (3) observations, symbolic (unnormalised)
// log start, transition and emission scores. The reported log-likelihood equals the logarithm of the sum
// over all hidden paths, the posterior marginals equal the enumerated ones, and the Viterbi path has
// maximal joint score.

import "fmt"
import "math"
import . "github.com/pbenner/autodiff"

func govcSym(name string) float64                { return 0 }
func govcAssume(c bool)                           {}
func govcCheckEq(name string, a, b float64)       {}
func govcCheck(name string, c bool)               {}
func govcNote(s string)                           {}

type govcRecord struct {
  e [][]float64 // e[state][k]: log emission score
}

func (r govcRecord) MapIndex(k int) int { return k }
func (r govcRecord) GetN() int          { return len(r.e[0]) }
func (r govcRecord) LogPdf(s Scalar, c, k int) error {
  s.SetFloat64(r.e[c][k])
  return nil
}

func govcHmm(m, n int) (*Hmm, govcRecord, []float64, []float64) {
  h, rec, pi, tr, _ := govcHmmX(m, n, false, nil, false)
  return h, rec, pi, tr
}

// govcHmmX: optionally a last-transition matrix Tf with its own symbols, a state-to-emission map, and
// Real64 parameters (generic route) instead of Float64 ones (specialised route)
func govcHmmX(m, n int, distinctTf bool, stateMap []int, real bool) (*Hmm, govcRecord, []float64, []float64, []float64) {
  pi := make([]float64, m)
  tr := make([]float64, m*m)
  tf := make([]float64, m*m)
  e := make([][]float64, m)
  for i := 0; i < m; i++ {
    pi[i] = govcSym(fmt.Sprintf("pi%d", i))
    e[i] = make([]float64, n)
    for k := 0; k < n; k++ {
      e[i][k] = govcSym(fmt.Sprintf("e%d%d", i, k))
    }
    for j := 0; j < m; j++ {
      tr[i*m+j] = govcSym(fmt.Sprintf("t%d%d", i, j))
      if distinctTf {
        tf[i*m+j] = govcSym(fmt.Sprintf("f%d%d", i, j))
      } else {
        tf[i*m+j] = tr[i*m+j]
      }
    }
  }
  mkv := func(x []float64) Vector {
    if real {
      v := NullDenseReal64Vector(len(x))
      for i := range x {
        v.At(i).SetFloat64(x[i])
      }
      return v
    }
    return NewDenseFloat64Vector(append([]float64{}, x...))
  }
  mkm := func(x []float64) Matrix {
    if real {
      a := NullDenseReal64Matrix(m, m)
      for i := 0; i < m; i++ {
        for j := 0; j < m; j++ {
          a.At(i, j).SetFloat64(x[i*m+j])
        }
      }
      return a
    }
    return NewDenseFloat64Matrix(append([]float64{}, x...), m, m)
  }
  tmp := func() Scalar {
    if real {
      return NullReal64()
    }
    return NullFloat64()
  }
  h, err := newHmm(HmmProbabilityVector{mkv(pi), tmp(), tmp()}, HmmTransitionMatrix{mkm(tr), tmp(), tmp()}, stateMap, m, false)
  if err != nil {
    panic(err)
  }
  if distinctTf {
    h.Tf = HmmTransitionMatrix{mkm(tf), tmp(), tmp()}
  }
  return h, govcRecord{e}, pi, tr, tf
}

// sum over all hidden paths of exp(score); optionally restricted to paths with state s at position k
func govcEnumerate(m, n int, pi, tr []float64, e [][]float64, atK, isS int) float64 {
  total := 0.0
  path := make([]int, n)
  var rec func(k int)
  rec = func(k int) {
    if k == n {
      if atK >= 0 && path[atK] != isS {
        return
      }
      s := pi[path[0]] + e[path[0]][0]
      for t := 1; t < n; t++ {
        s += tr[path[t-1]*m+path[t]] + e[path[t]][t]
      }
      total += math.Exp(s)
      return
    }
    for i := 0; i < m; i++ {
      path[k] = i
      rec(k + 1)
    }
  }
  rec(0)
  return total
}

func govcLogLikelihood(m, n int) {
  h, rec, pi, tr := govcHmm(m, n)
  r := NullFloat64()
  if err := h.LogPdf(r, rec); err != nil {
    govcCheck("no-error", false)
    return
  }
  govcCheckEq("likelihood = sum over hidden paths", math.Exp(r.GetFloat64()), govcEnumerate(m, n, pi, tr, rec.e, -1, 0))
}

func GovcC15LogLikelihood22() { govcLogLikelihood(2, 2) }
func GovcC15LogLikelihood23() { govcLogLikelihood(2, 3) }

func GovcC15PosteriorMarginals22() {
  m, n := 2, 2
  h, rec, pi, tr := govcHmm(m, n)
  g, err := h.PosteriorMarginals(rec)
  if err != nil {
    govcNote("error path")
    return
  }
  z := govcEnumerate(m, n, pi, tr, rec.e, -1, 0)
  for k := 0; k < n; k++ {
    s := 0.0
    for i := 0; i < m; i++ {
      p := math.Exp(g[i].ConstAt(k).GetFloat64())
      s += p
      govcCheckEq(fmt.Sprintf("marginal[state %d, position %d] * Z = restricted sum", i, k), p*z, govcEnumerate(m, n, pi, tr, rec.e, k, i))
    }
    govcCheckEq(fmt.Sprintf("marginals sum to one at position %d", k), s, 1.0)
  }
}

func GovcC15Viterbi22() {
  m, n := 2, 2
  h, rec, pi, tr := govcHmm(m, n)
  path, err := h.Viterbi(rec)
  if err != nil {
    govcNote("error path")
    return
  }
  score := func(p []int) float64 {
    s := pi[p[0]] + rec.e[p[0]][0]
    for t := 1; t < n; t++ {
      s += tr[p[t-1]*m+p[t]] + rec.e[p[t]][t]
    }
    return s
  }
  best := score(path)
  for a := 0; a < m; a++ {
    for b := 0; b < m; b++ {
      govcCheck(fmt.Sprintf("viterbi path at least as good as [%d %d]", a, b), best >= score([]int{a, b}))
    }
  }
}

// the float-specialised forward/backward recursion agrees with the generic scalar-interface one
func GovcC15FastEqualsGeneric22() {
  m, n := 2, 2
  h, rec, pi, tr := govcHmm(m, n)
  pr := NullDenseReal64Vector(m)
  tm := NullDenseReal64Matrix(m, m)
  for i := 0; i < m; i++ {
    pr.At(i).SetFloat64(pi[i])
    for j := 0; j < m; j++ {
      tm.At(i, j).SetFloat64(tr[i*m+j])
    }
  }
  hr, err := newHmm(HmmProbabilityVector{pr, NullReal64(), NullReal64()}, HmmTransitionMatrix{tm, NullReal64(), NullReal64()}, nil, m, false)
  if err != nil {
    panic(err)
  }
  a1, b1, err1 := h.ForwardBackward(rec)
  a2, b2, err2 := hr.ForwardBackward(rec)
  if err1 != nil || err2 != nil {
    govcCheck("no-error", false)
    return
  }
  for i := 0; i < m; i++ {
    for k := 0; k < n; k++ {
      govcCheckEq(fmt.Sprintf("alpha[%d,%d] float = generic", i, k), math.Exp(a1.ConstAt(i, k).GetFloat64()), math.Exp(a2.ConstAt(i, k).GetFloat64()))
      govcCheckEq(fmt.Sprintf("beta[%d,%d] float = generic", i, k), math.Exp(b1.ConstAt(i, k).GetFloat64()), math.Exp(b2.ConstAt(i, k).GetFloat64()))
    }
  }
}

// path score with a state map and a separate matrix for the last transition
func govcScore(p []int, m int, pi, tr, tf []float64, e [][]float64, sm []int) float64 {
  n := len(p)
  s := pi[p[0]] + e[sm[p[0]]][0]
  for t := 1; t < n; t++ {
    if t == n-1 {
      s += tf[p[t-1]*m+p[t]]
    } else {
      s += tr[p[t-1]*m+p[t]]
    }
    s += e[sm[p[t]]][t]
  }
  return s
}

// three observations, swapped state-to-emission map, separate last-transition scores: Viterbi
func GovcC15Viterbi23() {
  m, n := 2, 3
  sm := []int{1, 0}
  h, rec, pi, tr, tf := govcHmmX(m, n, true, sm, false)
  path, err := h.Viterbi(rec)
  if err != nil {
    govcNote("error path")
    return
  }
  best := govcScore(path, m, pi, tr, tf, rec.e, sm)
  for a := 0; a < m; a++ {
    for b := 0; b < m; b++ {
      for c := 0; c < m; c++ {
        govcCheck(fmt.Sprintf("viterbi path at least as good as [%d %d %d]", a, b, c), best >= govcScore([]int{a, b, c}, m, pi, tr, tf, rec.e, sm))
      }
    }
  }
}

// three observations: the forward table at the first two positions and the backward table at the last
// two, against their defining sums (state map swapped, separate last-transition scores), on the
// float-specialised and on the generic route
func govcForwardBackwardInner(real bool) {
  m, n := 2, 3
  sm := []int{1, 0}
  h, rec, pi, tr, tf := govcHmmX(m, n, true, sm, real)
  alpha, beta, err := h.ForwardBackward(rec)
  if err != nil {
    govcCheck("no-error", false)
    return
  }
  e := rec.e
  for j := 0; j < m; j++ {
    govcCheckEq(fmt.Sprintf("alpha[%d,0]", j), alpha.ConstAt(j, 0).GetFloat64(), pi[j]+e[sm[j]][0])
    s := 0.0
    for i := 0; i < m; i++ {
      s += math.Exp(pi[i] + e[sm[i]][0] + tr[i*m+j] + e[sm[j]][1])
    }
    govcCheckEq(fmt.Sprintf("exp alpha[%d,1]", j), math.Exp(alpha.ConstAt(j, 1).GetFloat64()), s)
    govcCheckEq(fmt.Sprintf("beta[%d,2]", j), beta.ConstAt(j, 2).GetFloat64(), 0.0)
    b := 0.0
    for k := 0; k < m; k++ {
      b += math.Exp(tf[j*m+k] + e[sm[k]][2])
    }
    govcCheckEq(fmt.Sprintf("exp beta[%d,1]", j), math.Exp(beta.ConstAt(j, 1).GetFloat64()), b)
  }
}

func GovcC15ForwardBackwardInnerFloat() { govcForwardBackwardInner(false) }
func GovcC15ForwardBackwardInnerReal()  { govcForwardBackwardInner(true) }

// work tables that are larger than the record and hold other values (Baum-Welch re-uses one pair of
// tables for records of different lengths): the result must not depend on their previous content
func GovcC15ReusedTables() {
  m, n := 2, 2
  h, rec, _, _ := govcHmm(m, n)
  fresh1, fresh2, err := h.ForwardBackward(rec)
  if err != nil {
    govcCheck("no-error", false)
    return
  }
  alpha := NullDenseFloat64Matrix(m, 3)
  beta := NullDenseFloat64Matrix(m, 3)
  for i := 0; i < m; i++ {
    for k := 0; k < 3; k++ {
      alpha.At(i, k).SetFloat64(7.0)
      beta.At(i, k).SetFloat64(7.0)
    }
  }
  a, b, err := h.float64ForwardBackward(rec, alpha, beta)
  if err != nil {
    govcCheck("no-error(reused)", false)
    return
  }
  for i := 0; i < m; i++ {
    for k := 0; k < n; k++ {
      govcCheckEq(fmt.Sprintf("alpha[%d,%d] reused = fresh", i, k), math.Exp(a.ConstAt(i, k).GetFloat64()), math.Exp(fresh1.ConstAt(i, k).GetFloat64()))
      govcCheckEq(fmt.Sprintf("beta[%d,%d] reused = fresh", i, k), math.Exp(b.ConstAt(i, k).GetFloat64()), math.Exp(fresh2.ConstAt(i, k).GetFloat64()))
    }
  }
}
