package generic

// C15 (bounded): a hidden Markov model with 2 states and 2 (3) observations, symbolic (unnormalised)
// log start, transition and emission scores. The reported log-likelihood equals the logarithm of the sum
// over all hidden paths, the posterior marginals equal the enumerated ones, and the Viterbi path has
// maximal joint score.

import "fmt"
import "math"
import . "github.com/pbenner/autodiff"

func govcSym(name string) float64                { return 0 }
func govcAssume(c bool)                           {}
func govcCheckEq(name string, a, b float64)       {}
func govcCheck(name string, c bool)               {}
func govcNote(s string)                           {}

type govcRecord struct {
  e [][]float64 // e[state][k]: log emission score
}

func (r govcRecord) MapIndex(k int) int { return k }
func (r govcRecord) GetN() int          { return len(r.e[0]) }
func (r govcRecord) LogPdf(s Scalar, c, k int) error {
  s.SetFloat64(r.e[c][k])
  return nil
}

func govcHmm(m, n int) (*Hmm, govcRecord, []float64, []float64) {
  pi := make([]float64, m)
  tr := make([]float64, m*m)
  e := make([][]float64, m)
  for i := 0; i < m; i++ {
    pi[i] = govcSym(fmt.Sprintf("pi%d", i))
    e[i] = make([]float64, n)
    for k := 0; k < n; k++ {
      e[i][k] = govcSym(fmt.Sprintf("e%d%d", i, k))
    }
    for j := 0; j < m; j++ {
      tr[i*m+j] = govcSym(fmt.Sprintf("t%d%d", i, j))
    }
  }
  pv := HmmProbabilityVector{NewDenseFloat64Vector(append([]float64{}, pi...)), NullFloat64(), NullFloat64()}
  tm := HmmTransitionMatrix{NewDenseFloat64Matrix(append([]float64{}, tr...), m, m), NullFloat64(), NullFloat64()}
  h, err := newHmm(pv, tm, nil, m, false)
  if err != nil {
    panic(err)
  }
  return h, govcRecord{e}, pi, tr
}

// sum over all hidden paths of exp(score); optionally restricted to paths with state s at position k
func govcEnumerate(m, n int, pi, tr []float64, e [][]float64, atK, isS int) float64 {
  total := 0.0
  path := make([]int, n)
  var rec func(k int)
  rec = func(k int) {
    if k == n {
      if atK >= 0 && path[atK] != isS {
        return
      }
      s := pi[path[0]] + e[path[0]][0]
      for t := 1; t < n; t++ {
        s += tr[path[t-1]*m+path[t]] + e[path[t]][t]
      }
      total += math.Exp(s)
      return
    }
    for i := 0; i < m; i++ {
      path[k] = i
      rec(k + 1)
    }
  }
  rec(0)
  return total
}

func govcLogLikelihood(m, n int) {
  h, rec, pi, tr := govcHmm(m, n)
  r := NullFloat64()
  if err := h.LogPdf(r, rec); err != nil {
    govcCheck("no-error", false)
    return
  }
  govcCheckEq("likelihood = sum over hidden paths", math.Exp(r.GetFloat64()), govcEnumerate(m, n, pi, tr, rec.e, -1, 0))
}

func GovcC15LogLikelihood22() { govcLogLikelihood(2, 2) }
func GovcC15LogLikelihood23() { govcLogLikelihood(2, 3) }

func GovcC15PosteriorMarginals22() {
  m, n := 2, 2
  h, rec, pi, tr := govcHmm(m, n)
  g, err := h.PosteriorMarginals(rec)
  if err != nil {
    govcNote("error path")
    return
  }
  z := govcEnumerate(m, n, pi, tr, rec.e, -1, 0)
  for k := 0; k < n; k++ {
    s := 0.0
    for i := 0; i < m; i++ {
      p := math.Exp(g[i].ConstAt(k).GetFloat64())
      s += p
      govcCheckEq(fmt.Sprintf("marginal[state %d, position %d] * Z = restricted sum", i, k), p*z, govcEnumerate(m, n, pi, tr, rec.e, k, i))
    }
    govcCheckEq(fmt.Sprintf("marginals sum to one at position %d", k), s, 1.0)
  }
}

func GovcC15Viterbi22() {
  m, n := 2, 2
  h, rec, pi, tr := govcHmm(m, n)
  path, err := h.Viterbi(rec)
  if err != nil {
    govcNote("error path")
    return
  }
  score := func(p []int) float64 {
    s := pi[p[0]] + rec.e[p[0]][0]
    for t := 1; t < n; t++ {
      s += tr[p[t-1]*m+p[t]] + rec.e[p[t]][t]
    }
    return s
  }
  best := score(path)
  for a := 0; a < m; a++ {
    for b := 0; b < m; b++ {
      govcCheck(fmt.Sprintf("viterbi path at least as good as [%d %d]", a, b), best >= score([]int{a, b}))
    }
  }
}

// the float-specialised forward/backward recursion agrees with the generic scalar-interface one
func GovcC15FastEqualsGeneric22() {
  m, n := 2, 2
  h, rec, pi, tr := govcHmm(m, n)
  pr := NullDenseReal64Vector(m)
  tm := NullDenseReal64Matrix(m, m)
  for i := 0; i < m; i++ {
    pr.At(i).SetFloat64(pi[i])
    for j := 0; j < m; j++ {
      tm.At(i, j).SetFloat64(tr[i*m+j])
    }
  }
  hr, err := newHmm(HmmProbabilityVector{pr, NullReal64(), NullReal64()}, HmmTransitionMatrix{tm, NullReal64(), NullReal64()}, nil, m, false)
  if err != nil {
    panic(err)
  }
  a1, b1, err1 := h.ForwardBackward(rec)
  a2, b2, err2 := hr.ForwardBackward(rec)
  if err1 != nil || err2 != nil {
    govcCheck("no-error", false)
    return
  }
  for i := 0; i < m; i++ {
    for k := 0; k < n; k++ {
      govcCheckEq(fmt.Sprintf("alpha[%d,%d] float = generic", i, k), math.Exp(a1.ConstAt(i, k).GetFloat64()), math.Exp(a2.ConstAt(i, k).GetFloat64()))
      govcCheckEq(fmt.Sprintf("beta[%d,%d] float = generic", i, k), math.Exp(b1.ConstAt(i, k).GetFloat64()), math.Exp(b2.ConstAt(i, k).GetFloat64()))
    }
  }
}
