package scalarEstimator

// C16 (bounded): closed-form estimators return the weighted maximum-likelihood parameters. Two
// symbolic observations with symbolic log-weights (gamma); the thread pool is run sequentially by the
// interpreter. The estimate is compared with the closed form that makes the weighted log-likelihood
// stationary (normal: weighted mean and weighted variance; exponential: sum w / sum w x).

import "math"
import . "github.com/pbenner/autodiff"
import   "github.com/pbenner/threadpool"

func govcSym(name string) float64                { return 0 }
func govcAssume(c bool)                           {}
func govcCheckEq(name string, a, b float64)       {}
func govcCheck(name string, c bool)               {}
func govcNote(s string)                           {}

func govcData() ([]float64, []float64) {
  x := []float64{govcSym("x0"), govcSym("x1")}
  g := []float64{govcSym("g0"), govcSym("g1")}
  return x, g
}

// weights relative to an arbitrary reference: w_i = exp(g_i)
func govcMoments(x, g []float64) (float64, float64, float64) {
  sw, swx, swxx := 0.0, 0.0, 0.0
  for i := range x {
    w := math.Exp(g[i])
    sw += w
    swx += w*x[i]
    swxx += w*x[i]*x[i]
  }
  return sw, swx, swxx
}

func GovcC16Normal() {
  x, g := govcData()
  est, err := NewNormalEstimator(0.0, 1.0, 0.0)
  if err != nil {
    govcCheck("constructor", false)
    return
  }
  if err := est.EstimateOnData(NewDenseFloat64Vector(x), NewDenseFloat64Vector(g), threadpool.Nil()); err != nil {
    govcNote("error path")
    return
  }
  sw, swx, swxx := govcMoments(x, g)
  mu := swx/sw
  v := swxx/sw - mu*mu
  govcCheckEq("mu = weighted mean", est.Mu.GetFloat64(), mu)
  s := est.Sigma.GetFloat64()
  govcCheckEq("sigma^2 = weighted variance", s*s, v)
}

func GovcC16NormalUnweighted() {
  x := []float64{govcSym("x0"), govcSym("x1"), govcSym("x2")}
  est, err := NewNormalEstimator(0.0, 1.0, 0.0)
  if err != nil {
    govcCheck("constructor", false)
    return
  }
  if err := est.EstimateOnData(NewDenseFloat64Vector(x), nil, threadpool.Nil()); err != nil {
    govcNote("error path")
    return
  }
  mu := (x[0] + x[1] + x[2])/3
  v := (x[0]*x[0] + x[1]*x[1] + x[2]*x[2])/3 - mu*mu
  govcCheckEq("mu = mean", est.Mu.GetFloat64(), mu)
  s := est.Sigma.GetFloat64()
  govcCheckEq("sigma^2 = variance", s*s, v)
}

// exponential(lambda): weighted ML estimate sum w / sum w x (rate not capped: LambdaMax = +Inf)
func GovcC16Exponential() {
  x, g := govcData()
  govcAssume(x[0] > 0.0)
  govcAssume(x[1] > 0.0)
  est, err := NewExponentialEstimator(1.0, math.Inf(1))
  if err != nil {
    govcCheck("constructor", false)
    return
  }
  if err := est.EstimateOnData(NewDenseFloat64Vector(x), NewDenseFloat64Vector(g), threadpool.Nil()); err != nil {
    govcNote("error path")
    return
  }
  sw, swx, _ := govcMoments(x, g)
  govcCheckEq("lambda = sum w / sum w x", est.Lambda.GetFloat64(), sw/swx)
}

// Poisson(mu): weighted ML estimate sum w x / sum w
func GovcC16Poisson() {
  x, g := govcData()
  govcAssume(x[0] > 0.0)
  govcAssume(x[1] > 0.0)
  est, err := NewPoissonEstimator(1.0)
  if err != nil {
    govcCheck("constructor", false)
    return
  }
  if err := est.EstimateOnData(NewDenseFloat64Vector(x), NewDenseFloat64Vector(g), threadpool.Nil()); err != nil {
    govcNote("error path")
    return
  }
  sw, swx, _ := govcMoments(x, g)
  govcCheckEq("lambda = sum w x / sum w", est.Lambda.GetFloat64(), swx/sw)
}

// geometric(p) on k = 0, 1, ...: weighted ML estimate sum w / sum w (k + 1)
func GovcC16Geometric() {
  x, g := govcData()
  govcAssume(x[0] >= 0.0)
  govcAssume(x[1] >= 0.0)
  est, err := NewGeometricEstimator(0.5)
  if err != nil {
    govcCheck("constructor", false)
    return
  }
  if err := est.EstimateOnData(NewDenseFloat64Vector(x), NewDenseFloat64Vector(g), threadpool.Nil()); err != nil {
    govcNote("error path")
    return
  }
  sw, swx, _ := govcMoments(x, g)
  govcCheckEq("p = sum w / sum w (k+1)", est.GetParameters().ConstAt(0).GetFloat64(), sw/(swx+sw))
}

// configured parameter bounds: the rate never exceeds LambdaMax, sigma never falls below SigmaMin,
// and an estimate strictly inside the bound is the unconstrained ML estimate
func GovcC16Bounds() {
  x, g := govcData()
  govcAssume(x[0] > 0.0)
  govcAssume(x[1] > 0.0)
  e, err := NewExponentialEstimator(1.0, 5.0)
  if err != nil {
    govcCheck("constructor", false)
    return
  }
  if err := e.EstimateOnData(NewDenseFloat64Vector(x), NewDenseFloat64Vector(g), threadpool.Nil()); err != nil {
    govcNote("error path")
    return
  }
  lam := e.Lambda.GetFloat64()
  govcCheck("lambda <= LambdaMax", lam <= 5.0)
  if lam < 5.0 {
    sw, swx, _ := govcMoments(x, g)
    govcCheckEq("lambda inside the bound = ML", lam, sw/swx)
  }
  n, err := NewNormalEstimator(0.0, 1.0, 0.25)
  if err != nil {
    govcCheck("constructor", false)
    return
  }
  if err := n.EstimateOnData(NewDenseFloat64Vector(x), NewDenseFloat64Vector(g), threadpool.Nil()); err != nil {
    govcNote("error path")
    return
  }
  s := n.Sigma.GetFloat64()
  govcCheck("sigma >= SigmaMin", s >= 0.25)
  if s > 0.25 {
    sw, swx, swxx := govcMoments(x, g)
    mu := swx/sw
    govcCheckEq("sigma^2 inside the bound = weighted variance", s*s, swxx/sw-mu*mu)
  }
}
