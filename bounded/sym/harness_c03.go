package autodiff

// C03 (bounded): vector operations do not depend on dense or sparse storage of receiver and operands,
// nor on what the receiver held before. Entries are symbolic reals; the paths on which an entry is
// zero (dropped by a sparse container, or stored explicitly) are enumerated like any other branch.

import "fmt"

func govcSym(name string) float64                { return 0 }
func govcAssume(c bool)                           {}
func govcCheckEq(name string, a, b float64)       {}
func govcCheck(name string, c bool)               {}
func govcNote(s string)                           {}

// storage: 0 dense, 1 sparse built from index/value lists (zeros dropped by the constructor),
// 2 sparse with every position stored explicitly (written through At)
func govcVector(vals []float64, storage int) Vector {
  n := len(vals)
  switch storage {
  case 0:
    return NewDenseFloat64Vector(append([]float64{}, vals...))
  case 1:
    idx := make([]int, n)
    for i := range idx {
      idx[i] = i
    }
    return NewSparseFloat64Vector(idx, append([]float64{}, vals...), n)
  default:
    r := NullSparseFloat64Vector(n)
    for i := 0; i < n; i++ {
      r.At(i).SetFloat64(vals[i])
    }
    return r
  }
}

// a receiver that already holds other values: 0 dense, 1 sparse with every position stored,
// 2 empty sparse, 3 sparse with only position 0 stored
func govcReceiver(n int, storage int) Vector {
  vals := make([]float64, n)
  for i := range vals {
    vals[i] = 7.0 + float64(i)
  }
  switch storage {
  case 0, 1:
    return govcVector(vals, storage)
  case 2:
    return NullSparseFloat64Vector(n)
  default:
    r := NullSparseFloat64Vector(n)
    r.At(0).SetFloat64(7.0)
    return r
  }
}

func govcSymVals(prefix string, n int) []float64 {
  v := make([]float64, n)
  for i := range v {
    v[i] = govcSym(fmt.Sprintf("%s%d", prefix, i))
  }
  return v
}

func govcExpect(op string, x, y float64) float64 {
  switch op {
  case "add":
    return x + y
  case "sub":
    return x - y
  case "mul":
    return x*y
  default:
    return x/y
  }
}

// KNOWN FINDING (see known_findings.txt, DESIGN.md C03): the joint iterators treat a position at which
// every iterated value is zero and the receiver stores nothing as the end of the iteration. The general
// harnesses exclude exactly that trigger (before the last position); GovcC03AllZeroPosition exhibits it.
func govcExcludeAllZero(sr int, n int, vals ...[]float64) {
  for i := 0; i < n-1; i++ {
    stored := sr == 0 || sr == 1 || (sr == 3 && i == 0)
    if stored {
      continue
    }
    allZero := true
    for _, v := range vals {
      if v[i] != 0.0 {
        allZero = false
      }
    }
    govcAssume(!allZero)
  }
}

func govcVopV(op string, n int, sr, sa, sb int) {
  a0 := govcSymVals("a", n)
  b0 := govcSymVals("b", n)
  govcExcludeAllZero(sr, n, a0, b0)
  if op == "div" {
    for i := 0; i < n; i++ {
      govcAssume(b0[i] != 0.0)
    }
  }
  r := govcReceiver(n, sr)
  a := govcVector(a0, sa)
  b := govcVector(b0, sb)
  switch op {
  case "add":
    r.VaddV(a, b)
  case "sub":
    r.VsubV(a, b)
  case "mul":
    r.VmulV(a, b)
  default:
    r.VdivV(a, b)
  }
  tag := fmt.Sprintf("%s[r%d,a%d,b%d]", op, sr, sa, sb)
  govcCheck(tag+".dim", r.Dim() == n)
  for i := 0; i < n; i++ {
    govcCheckEq(fmt.Sprintf("%s[%d]", tag, i), r.ConstAt(i).GetFloat64(), govcExpect(op, a0[i], b0[i]))
    govcCheckEq(fmt.Sprintf("%s.a-unchanged[%d]", tag, i), a.ConstAt(i).GetFloat64(), a0[i])
    govcCheckEq(fmt.Sprintf("%s.b-unchanged[%d]", tag, i), b.ConstAt(i).GetFloat64(), b0[i])
  }
}

func govcVopS(op string, n int, sr, sa int) {
  a0 := govcSymVals("a", n)
  s0 := govcSym("s")
  govcExcludeAllZero(sr, n, a0)
  if op == "div" {
    govcAssume(s0 != 0.0)
  }
  r := govcReceiver(n, sr)
  a := govcVector(a0, sa)
  s := NewFloat64(s0)
  switch op {
  case "add":
    r.VaddS(a, s)
  case "sub":
    r.VsubS(a, s)
  case "mul":
    r.VmulS(a, s)
  default:
    r.VdivS(a, s)
  }
  tag := fmt.Sprintf("%sS[r%d,a%d]", op, sr, sa)
  govcCheck(tag+".dim", r.Dim() == n)
  for i := 0; i < n; i++ {
    govcCheckEq(fmt.Sprintf("%s[%d]", tag, i), r.ConstAt(i).GetFloat64(), govcExpect(op, a0[i], s0))
  }
}

func govcAllVopV(op string, n int) {
  for sr := 0; sr < 4; sr++ {
    for sa := 0; sa < 3; sa++ {
      for sb := 0; sb < 3; sb++ {
        if sr == 0 && sa == 0 && sb == 0 {
          continue
        }
        govcVopV(op, n, sr, sa, sb)
      }
    }
  }
}

func GovcC03AddV2() { govcAllVopV("add", 2) }
func GovcC03SubV2() { govcAllVopV("sub", 2) }
func GovcC03MulV2() { govcAllVopV("mul", 2) }
func GovcC03DivV2() { govcAllVopV("div", 2) }

func govcAllVopS(op string, n int) {
  for sr := 0; sr < 4; sr++ {
    for sa := 0; sa < 3; sa++ {
      if sr == 0 && sa == 0 {
        continue
      }
      govcVopS(op, n, sr, sa)
    }
  }
}

func GovcC03AddS2() { govcAllVopS("add", 2) }
func GovcC03SubS2() { govcAllVopS("sub", 2) }
func GovcC03MulS2() { govcAllVopS("mul", 2) }
func GovcC03DivS2() { govcAllVopS("div", 2) }

// conversions preserve every element
func GovcC03Convert3() {
  n := 3
  a0 := govcSymVals("a", n)
  for st := 0; st < 3; st++ {
    a := govcVector(a0, st)
    d := AsDenseFloat64Vector(a)
    s := AsSparseFloat64Vector(a)
    c := a.CloneVector()
    for i := 0; i < n; i++ {
      govcCheckEq(fmt.Sprintf("asDense[s%d][%d]", st, i), d.ConstAt(i).GetFloat64(), a0[i])
      govcCheckEq(fmt.Sprintf("asSparse[s%d][%d]", st, i), s.ConstAt(i).GetFloat64(), a0[i])
      govcCheckEq(fmt.Sprintf("clone[s%d][%d]", st, i), c.ConstAt(i).GetFloat64(), a0[i])
    }
    // Set from the other representation
    rd := govcReceiver(n, 0)
    rd.Set(a)
    rs := govcReceiver(n, 1)
    rs.Set(a)
    for i := 0; i < n; i++ {
      govcCheckEq(fmt.Sprintf("dense.Set[s%d][%d]", st, i), rd.ConstAt(i).GetFloat64(), a0[i])
      govcCheckEq(fmt.Sprintf("sparse.Set[s%d][%d]", st, i), rs.ConstAt(i).GetFloat64(), a0[i])
    }
  }
}

// the excluded trigger, on its own: empty sparse receiver, dense operands whose first entries are zero
func GovcC03AllZeroPosition() {
  x, y := govcSym("x"), govcSym("y")
  govcAssume(x != 0.0)
  govcAssume(y != 0.0)
  a := NewDenseFloat64Vector([]float64{0.0, x})
  b := NewDenseFloat64Vector([]float64{0.0, y})
  r := NullSparseFloat64Vector(2)
  r.VaddV(a, b)
  govcCheckEq("VaddV[1]", r.ConstAt(1).GetFloat64(), x+y)
  r = NullSparseFloat64Vector(2)
  r.VsubV(a, b)
  govcCheckEq("VsubV[1]", r.ConstAt(1).GetFloat64(), x-y)
  r = NullSparseFloat64Vector(2)
  r.VmulV(a, b)
  govcCheckEq("VmulV[1]", r.ConstAt(1).GetFloat64(), x*y)
  r = NullSparseFloat64Vector(2)
  r.VmulS(a, NewFloat64(y))
  govcCheckEq("VmulS[1]", r.ConstAt(1).GetFloat64(), x*y)
  r = NullSparseFloat64Vector(2)
  r.VdivS(a, NewFloat64(y))
  govcCheckEq("VdivS[1]", r.ConstAt(1).GetFloat64(), x/y)
  // the same convention ends Set from another representation early
  r = NullSparseFloat64Vector(2)
  r.Set(a)
  govcCheckEq("Set[1]", r.ConstAt(1).GetFloat64(), x)
}

// concrete (capital-letter) sparse operations: all operands sparse, built from lists (zeros dropped)
// or with every position stored; receivers sparse full / empty / partly filled
func govcSparse(vals []float64, storage int) *SparseFloat64Vector {
  return govcVector(vals, storage).(*SparseFloat64Vector)
}

func govcSparseReceiver(n int, sr int) *SparseFloat64Vector {
  return govcReceiver(n, sr).(*SparseFloat64Vector)
}

func GovcC03ConcreteVopV() {
  n := 2
  a0 := govcSymVals("a", n)
  b0 := govcSymVals("b", n)
  for _, op := range []string{"add", "sub", "mul"} {
    for sr := 1; sr < 4; sr++ {
      for sa := 1; sa < 3; sa++ {
        for sb := 1; sb < 3; sb++ {
          r := govcSparseReceiver(n, sr)
          a := govcSparse(a0, sa)
          b := govcSparse(b0, sb)
          switch op {
          case "add":
            r.VADDV(a, b)
          case "sub":
            r.VSUBV(a, b)
          default:
            r.VMULV(a, b)
          }
          tag := fmt.Sprintf("%sV[r%d,a%d,b%d]", op, sr, sa, sb)
          for i := 0; i < n; i++ {
            govcCheckEq(fmt.Sprintf("%s[%d]", tag, i), r.ConstAt(i).GetFloat64(), govcExpect(op, a0[i], b0[i]))
          }
        }
      }
    }
  }
}

func GovcC03ConcreteVopS() {
  n := 2
  a0 := govcSymVals("a", n)
  s0 := govcSym("s")
  for _, op := range []string{"add", "sub", "mul", "div"} {
    if op == "div" {
      govcAssume(s0 != 0.0)
    }
    for sr := 1; sr < 4; sr++ {
      for sa := 1; sa < 3; sa++ {
        r := govcSparseReceiver(n, sr)
        a := govcSparse(a0, sa)
        s := NewFloat64(s0)
        switch op {
        case "add":
          r.VADDS(a, s)
        case "sub":
          r.VSUBS(a, s)
        case "mul":
          r.VMULS(a, s)
        default:
          r.VDIVS(a, s)
        }
        tag := fmt.Sprintf("%sS[r%d,a%d]", op, sr, sa)
        for i := 0; i < n; i++ {
          govcCheckEq(fmt.Sprintf("%s[%d]", tag, i), r.ConstAt(i).GetFloat64(), govcExpect(op, a0[i], s0))
        }
      }
    }
  }
}
