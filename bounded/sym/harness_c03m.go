package autodiff

// C03 (bounded), matrices and products: 2x2 operands; a is fully symbolic, b has a symbolic diagonal,
// one explicit zero and one fixed entry, so that zero patterns of both operands are exercised.

import "fmt"

func govcMatrix(vals []float64, n, m int, storage int) Matrix {
  switch storage {
  case 0:
    return NewDenseFloat64Matrix(append([]float64{}, vals...), n, m)
  case 1:
    var ri, ci []int
    for i := 0; i < n; i++ {
      for j := 0; j < m; j++ {
        ri = append(ri, i)
        ci = append(ci, j)
      }
    }
    return NewSparseFloat64Matrix(ri, ci, append([]float64{}, vals...), n, m)
  default:
    r := NullSparseFloat64Matrix(n, m)
    for i := 0; i < n; i++ {
      for j := 0; j < m; j++ {
        r.At(i, j).SetFloat64(vals[i*m+j])
      }
    }
    return r
  }
}

// receivers: 0 dense, 1 sparse with every position stored, 2 empty sparse, 3 sparse with only (0,0) stored
func govcMatReceiver(n, m int, storage int) Matrix {
  vals := make([]float64, n*m)
  for i := range vals {
    vals[i] = 7.0 + float64(i)
  }
  switch storage {
  case 0, 1:
    return govcMatrix(vals, n, m, storage)
  case 2:
    return NullSparseFloat64Matrix(n, m)
  default:
    r := NullSparseFloat64Matrix(n, m)
    r.At(0, 0).SetFloat64(7.0)
    return r
  }
}

func govcMopM(op string, sr, sa, sb int) {
  n := 2
  a0 := govcSymVals("a", n*n)
  b0 := []float64{govcSym("b0"), 0.0, 3.0, govcSym("b3")}
  r := govcMatReceiver(n, n, sr)
  a := govcMatrix(a0, n, n, sa)
  b := govcMatrix(b0, n, n, sb)
  e := make([]float64, n*n)
  switch op {
  case "add":
    r.MaddM(a, b)
    for i := range e {
      e[i] = a0[i] + b0[i]
    }
  case "sub":
    r.MsubM(a, b)
    for i := range e {
      e[i] = a0[i] - b0[i]
    }
  case "mul":
    r.MmulM(a, b)
    for i := range e {
      e[i] = a0[i]*b0[i]
    }
  case "dot":
    r.MdotM(a, b)
    for i := 0; i < n; i++ {
      for j := 0; j < n; j++ {
        for k := 0; k < n; k++ {
          e[i*n+j] += a0[i*n+k]*b0[k*n+j]
        }
      }
    }
  }
  tag := fmt.Sprintf("M%sM[r%d,a%d,b%d]", op, sr, sa, sb)
  for i := 0; i < n; i++ {
    for j := 0; j < n; j++ {
      govcCheckEq(fmt.Sprintf("%s[%d,%d]", tag, i, j), r.ConstAt(i, j).GetFloat64(), e[i*n+j])
      govcCheckEq(fmt.Sprintf("%s.a-unchanged[%d,%d]", tag, i, j), a.ConstAt(i, j).GetFloat64(), a0[i*n+j])
    }
  }
}

func govcAllMopM(op string) {
  for sr := 0; sr < 4; sr++ {
    for sa := 0; sa < 3; sa++ {
      for sb := 0; sb < 3; sb++ {
        if sr == 0 && sa == 0 && sb == 0 {
          continue
        }
        govcMopM(op, sr, sa, sb)
      }
    }
  }
}

func GovcC03MaddM() { govcAllMopM("add") }
func GovcC03MsubM() { govcAllMopM("sub") }
func GovcC03MmulM() { govcAllMopM("mul") }
func GovcC03MdotM() { govcAllMopM("dot") }

// matrix-vector and vector-vector products
func GovcC03Products() {
  n := 2
  a0 := govcSymVals("a", n*n)
  x0 := []float64{govcSym("x0"), 0.0}
  y0 := govcSymVals("y", n)
  for sm := 0; sm < 3; sm++ {
    for sv := 0; sv < 3; sv++ {
      for sr := 0; sr < 4; sr++ {
        a := govcMatrix(a0, n, n, sm)
        x := govcVector(x0, sv)
        r := govcReceiver(n, sr)
        r.MdotV(a, x)
        tag := fmt.Sprintf("[r%d,m%d,v%d]", sr, sm, sv)
        for i := 0; i < n; i++ {
          govcCheckEq(fmt.Sprintf("MdotV%s[%d]", tag, i), r.ConstAt(i).GetFloat64(), a0[i*n]*x0[0]+a0[i*n+1]*x0[1])
        }
        r2 := govcReceiver(n, sr)
        r2.VdotM(x, a)
        for j := 0; j < n; j++ {
          govcCheckEq(fmt.Sprintf("VdotM%s[%d]", tag, j), r2.ConstAt(j).GetFloat64(), x0[0]*a0[j]+x0[1]*a0[n+j])
        }
      }
      y := govcVector(y0, sm)
      x := govcVector(x0, sv)
      s := NewFloat64(7.0)
      s.VdotV(x, y)
      govcCheckEq(fmt.Sprintf("VdotV[x%d,y%d]", sv, sm), s.GetFloat64(), x0[0]*y0[0]+x0[1]*y0[1])
    }
  }
}

// values and derivatives: Real64 containers, dense against sparse
func GovcC03RealMulV() {
  n := 2
  a0 := govcSymVals("a", n)
  b0 := govcSymVals("b", n)
  mk := func(vals []float64, sparse bool, first int) Vector {
    var v Vector
    if sparse {
      v = NullSparseReal64Vector(n)
    } else {
      v = NullDenseReal64Vector(n)
    }
    for i := 0; i < n; i++ {
      s := v.At(i).(*Real64)
      s.SetFloat64(vals[i])
      s.SetVariable(first+i, 2*n, 1)
    }
    return v
  }
  for sr := 0; sr < 2; sr++ {
    for sa := 0; sa < 2; sa++ {
      for sb := 0; sb < 2; sb++ {
        a := mk(a0, sa == 1, 0)
        b := mk(b0, sb == 1, n)
        var r Vector
        if sr == 1 {
          r = NullSparseReal64Vector(n)
        } else {
          r = NullDenseReal64Vector(n)
        }
        if sr == 1 {
          // known finding (joint iterators end at an all-zero position the receiver does not store)
          govcAssume(!(a0[0] == 0.0 && b0[0] == 0.0))
        }
        r.VmulV(a, b)
        tag := fmt.Sprintf("RealVmulV[r%d,a%d,b%d]", sr, sa, sb)
        for i := 0; i < n; i++ {
          ri := r.ConstAt(i)
          govcCheckEq(fmt.Sprintf("%s[%d]", tag, i), ri.GetFloat64(), a0[i]*b0[i])
          for k := 0; k < 2*n; k++ {
            e := 0.0
            if k == i {
              e = b0[i]
            }
            if k == n+i {
              e = a0[i]
            }
            d := 0.0
            if ri.GetOrder() >= 1 {
              d = ri.GetDerivative(k)
            }
            govcCheckEq(fmt.Sprintf("%s.d[%d]/d%d", tag, i, k), d, e)
          }
        }
      }
    }
  }
}

// quick-tier variant of the matrix-vector product check: receivers that already hold entries
func GovcC03MdotVQuick() {
  n := 2
  a0 := govcSymVals("a", n*n)
  x0 := []float64{govcSym("x0"), govcSym("x1")}
  for sm := 0; sm < 2; sm++ {
    for sv := 0; sv < 2; sv++ {
      for _, sr := range []int{1, 3} {
        a := govcMatrix(a0, n, n, sm)
        x := govcVector(x0, sv)
        r := govcReceiver(n, sr)
        r.MdotV(a, x)
        tag := fmt.Sprintf("[r%d,m%d,v%d]", sr, sm, sv)
        for i := 0; i < n; i++ {
          govcCheckEq(fmt.Sprintf("MdotV%s[%d]", tag, i), r.ConstAt(i).GetFloat64(), a0[i*n]*x0[0]+a0[i*n+1]*x0[1])
        }
      }
    }
  }
}
