package backSubstitution

import "fmt"
import . "github.com/pbenner/autodiff"

func govcSym(name string) float64                { return 0 }
func govcAssume(c bool)                           {}
func govcCheckEq(name string, a, b float64)       {}
func govcCheck(name string, c bool)               {}
func govcNote(s string)                           {}

func govcBackSub(n int) {
  r0 := make([]float64, n*n)
  b0 := make([]float64, n)
  r := NullDenseFloat64Matrix(n, n)
  b := NullDenseFloat64Vector(n)
  for i := 0; i < n; i++ {
    for j := i; j < n; j++ {
      r0[i*n+j] = govcSym(fmt.Sprintf("r%d%d", i, j))
      r.At(i, j).SetFloat64(r0[i*n+j])
    }
    b0[i] = govcSym(fmt.Sprintf("b%d", i))
    b.At(i).SetFloat64(b0[i])
  }
  x, err := Run(r, b)
  if err != nil {
    govcCheck("no-error", false)
    return
  }
  for i := 0; i < n; i++ {
    s := 0.0
    for j := 0; j < n; j++ {
      s += r0[i*n+j]*x.ConstAt(j).GetFloat64()
    }
    govcCheckEq(fmt.Sprintf("Rx=b[%d]", i), s, b0[i])
  }
}

func GovcBackSub2() { govcBackSub(2) }
func GovcBackSub3() { govcBackSub(3) }
