package backSubstitution

// C06 (bounded): the solution of R x = b carried on magic scalars has the analytic derivatives:
// differentiating R x = b gives R (dx/db_j) = e_j and R (dx/dR_pq) = -e_p x_q.

import "fmt"
import . "github.com/pbenner/autodiff"

func govcBackSubDerivative(n int) {
  r0 := make([]float64, n*n)
  r := NullDenseReal64Matrix(n, n)
  b := NullDenseReal64Vector(n)
  var vars []MagicScalar
  idx := map[int]int{} // variable number of R[i,j]
  for i := 0; i < n; i++ {
    for j := i; j < n; j++ {
      r0[i*n+j] = govcSym(fmt.Sprintf("r%d%d", i, j))
      r.At(i, j).SetFloat64(r0[i*n+j])
      idx[i*n+j] = len(vars)
      vars = append(vars, r.At(i, j).(MagicScalar))
    }
  }
  nb := len(vars)
  for i := 0; i < n; i++ {
    b.At(i).SetFloat64(govcSym(fmt.Sprintf("b%d", i)))
    vars = append(vars, b.At(i).(MagicScalar))
  }
  Variables(1, vars...)
  x, err := Run(r, b)
  if err != nil {
    govcCheck("no-error", false)
    return
  }
  for i := 0; i < n; i++ {
    govcCheck(fmt.Sprintf("order[%d]", i), x.ConstAt(i).GetOrder() == 1 && x.ConstAt(i).GetN() == len(vars))
    for j := 0; j < n; j++ {
      s := 0.0
      for k := 0; k < n; k++ {
        s += r0[i*n+k]*x.ConstAt(k).GetDerivative(nb+j)
      }
      e := 0.0
      if i == j {
        e = 1.0
      }
      govcCheckEq(fmt.Sprintf("R*dx/db%d[%d]", j, i), s, e)
    }
    for p := 0; p < n; p++ {
      for q := p; q < n; q++ {
        s := 0.0
        for k := 0; k < n; k++ {
          s += r0[i*n+k]*x.ConstAt(k).GetDerivative(idx[p*n+q])
        }
        e := 0.0
        if i == p {
          e = -x.ConstAt(q).GetFloat64()
        }
        govcCheckEq(fmt.Sprintf("R*dx/dR%d%d[%d]", p, q, i), s, e)
      }
    }
  }
}

func GovcBackSubDerivative2() { govcBackSubDerivative(2) }
func GovcBackSubDerivative3() { govcBackSubDerivative(3) }
