package householderBidiagonalization

import "fmt"
import . "github.com/pbenner/autodiff"

func govcSym(name string) float64                { return 0 }
func govcAssume(c bool)                           {}
func govcCheckEq(name string, a, b float64)       {}
func govcCheck(name string, c bool)               {}
func govcNote(s string)                           {}

func govcSymMat(n, m int, real bool, sym bool) (Matrix, []float64) {
  a0 := make([]float64, n*m)
  for i := 0; i < n; i++ {
    for j := 0; j < m; j++ {
      if sym && j < i {
        a0[i*m+j] = a0[j*m+i]
      } else {
        a0[i*m+j] = govcSym(fmt.Sprintf("a%d%d", i, j))
      }
    }
  }
  var a Matrix
  if real {
    a = NullDenseReal64Matrix(n, m)
  } else {
    a = NullDenseFloat64Matrix(n, m)
  }
  for i := 0; i < n; i++ {
    for j := 0; j < m; j++ {
      a.At(i, j).SetFloat64(a0[i*m+j])
    }
  }
  return a, a0
}

func govcGet(a ConstMatrix) ([]float64, int, int) {
  n, m := a.Dims()
  r := make([]float64, n*m)
  for i := 0; i < n; i++ {
    for j := 0; j < m; j++ {
      r[i*m+j] = a.ConstAt(i, j).GetFloat64()
    }
  }
  return r, n, m
}

// c = a*b (a: n x k, b: k x m), row-major
func govcMul(a []float64, n, k int, b []float64, m int) []float64 {
  c := make([]float64, n*m)
  for i := 0; i < n; i++ {
    for j := 0; j < m; j++ {
      s := 0.0
      for l := 0; l < k; l++ {
        s += a[i*k+l]*b[l*m+j]
      }
      c[i*m+j] = s
    }
  }
  return c
}

func govcTr(a []float64, n, m int) []float64 {
  c := make([]float64, n*m)
  for i := 0; i < n; i++ {
    for j := 0; j < m; j++ {
      c[j*n+i] = a[i*m+j]
    }
  }
  return c
}

func govcEqMat(name string, a, b []float64, n, m int) {
  for i := 0; i < n; i++ {
    for j := 0; j < m; j++ {
      govcCheckEq(fmt.Sprintf("%s[%d,%d]", name, i, j), a[i*m+j], b[i*m+j])
    }
  }
}

func govcOrthonormalCols(name string, q []float64, n, m int) {
  qtq := govcMul(govcTr(q, n, m), m, n, q, m)
  for i := 0; i < m; i++ {
    for j := 0; j < m; j++ {
      e := 0.0
      if i == j {
        e = 1.0
      }
      govcCheckEq(fmt.Sprintf("%s[%d,%d]", name, i, j), qtq[i*m+j], e)
    }
  }
}

func govcBidiag(m, n int, real bool) {
  a, a0 := govcSymMat(m, n, real, false)
  b, u, v, err := Run(a, ComputeU{true}, ComputeV{true})
  if err != nil {
    govcCheck("no-error", false)
    return
  }
  bv, _, _ := govcGet(b)
  uv, _, _ := govcGet(u)
  vv, _, _ := govcGet(v)
  govcOrthonormalCols("U'U=I", uv, m, m)
  govcOrthonormalCols("V'V=I", vv, n, n)
  for i := 0; i < m; i++ {
    for j := 0; j < n; j++ {
      if j < i || j > i+1 {
        govcCheckEq(fmt.Sprintf("B-bidiagonal[%d,%d]", i, j), bv[i*n+j], 0.0)
      }
    }
  }
  // B = U' A V  <=>  U B = A V
  govcEqMat("UB=AV", govcMul(uv, m, m, bv, n), govcMul(a0, m, n, vv, n), m, n)
}

func GovcBidiagDense22() { govcBidiag(2, 2, false) }
func GovcBidiagDense32() { govcBidiag(3, 2, false) }
func GovcBidiagDense33() { govcBidiag(3, 3, false) }
func GovcBidiagReal32()  { govcBidiag(3, 2, true) }

// 4x4 input built from 3-4-5 triples scaled by symbolic factors: every norm taken by the algorithm is
// the square root of a perfect square, so that the exact algebra stays small, while two row
// reflections that do not commute are accumulated into V (with fewer than four columns there is
// only one, and V = V').
func govcBidiagPyth44(real bool) {
  n := 4
  s, t, u, g, w := govcSym("s"), govcSym("t"), govcSym("u"), govcSym("g"), govcSym("w")
  a0 := []float64{
    s, 3*t, 4*t, 0,
    0, 3*u, 4*u, g,
    0, 0, 0, 3*w,
    0, 0, 0, 4*w}
  var a Matrix
  if real {
    a = NullDenseReal64Matrix(n, n)
  } else {
    a = NullDenseFloat64Matrix(n, n)
  }
  for i := 0; i < n; i++ {
    for j := 0; j < n; j++ {
      a.At(i, j).SetFloat64(a0[i*n+j])
    }
  }
  b, uu, v, err := Run(a, ComputeU{true}, ComputeV{true})
  if err != nil {
    govcCheck("no-error", false)
    return
  }
  bv, _, _ := govcGet(b)
  uv, _, _ := govcGet(uu)
  vv, _, _ := govcGet(v)
  govcOrthonormalCols("U'U=I", uv, n, n)
  govcOrthonormalCols("V'V=I", vv, n, n)
  for i := 0; i < n; i++ {
    for j := 0; j < n; j++ {
      if j < i || j > i+1 {
        govcCheckEq(fmt.Sprintf("B-bidiagonal[%d,%d]", i, j), bv[i*n+j], 0.0)
      }
    }
  }
  govcEqMat("UB=AV", govcMul(uv, n, n, bv, n), govcMul(a0, n, n, vv, n), n, n)
}

func GovcBidiagPyth44()     { govcBidiagPyth44(false) }
func GovcBidiagPyth44Real() { govcBidiagPyth44(true) }
