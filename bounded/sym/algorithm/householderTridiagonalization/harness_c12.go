package householderTridiagonalization

// C12 (bounded): the algorithm entry point leaves its input unchanged (values, and for Real64 input
// the derivative order of every entry)

import "fmt"
import . "github.com/pbenner/autodiff"

func govcC12Input(n, m int, real bool, sym bool) (Matrix, []float64) {
  a0 := make([]float64, n*m)
  var a Matrix
  if real {
    a = NullDenseReal64Matrix(n, m)
  } else {
    a = NullDenseFloat64Matrix(n, m)
  }
  for i := 0; i < n; i++ {
    for j := 0; j < m; j++ {
      if sym && j < i {
        a0[i*m+j] = a0[j*m+i]
      } else {
        a0[i*m+j] = govcSym(fmt.Sprintf("a%d%d", i, j))
      }
      a.At(i, j).SetFloat64(a0[i*m+j])
    }
  }
  return a, a0
}

func govcC12Same(tag string, a ConstMatrix, a0 []float64) {
  n, m := a.Dims()
  for i := 0; i < n; i++ {
    for j := 0; j < m; j++ {
      govcCheckEq(fmt.Sprintf("%s:input[%d,%d]", tag, i, j), a.ConstAt(i, j).GetFloat64(), a0[i*m+j])
      govcCheck(fmt.Sprintf("%s:input-order[%d,%d]", tag, i, j), a.ConstAt(i, j).GetOrder() == 0)
    }
  }
}

func GovcC12Tridiag() {
  a, a0 := govcC12Input(3, 3, false, true)
  if _, _, err := Run(a, ComputeU{true}); err == nil {
    govcC12Same("tridiag", a, a0)
  }
}

// a caller-supplied work matrix, different from the input and holding other values
func GovcC12TridiagWorkBuffer() {
  a, a0 := govcC12Input(3, 3, false, true)
  buf := NullDenseFloat64Matrix(3, 3)
  for i := 0; i < 3; i++ {
    for j := 0; j < 3; j++ {
      buf.At(i, j).SetFloat64(7.0 + float64(i+j))
    }
  }
  if _, _, err := Run(a, ComputeU{true}, &InSitu{A: buf}); err == nil {
    govcC12Same("tridiag-workbuffer", a, a0)
  }
}
