package hessenbergReduction

import "fmt"
import . "github.com/pbenner/autodiff"

func govcSym(name string) float64                { return 0 }
func govcAssume(c bool)                           {}
func govcCheckEq(name string, a, b float64)       {}
func govcCheck(name string, c bool)               {}
func govcNote(s string)                           {}

func govcSymMat(n, m int, real bool, sym bool) (Matrix, []float64) {
  a0 := make([]float64, n*m)
  for i := 0; i < n; i++ {
    for j := 0; j < m; j++ {
      if sym && j < i {
        a0[i*m+j] = a0[j*m+i]
      } else {
        a0[i*m+j] = govcSym(fmt.Sprintf("a%d%d", i, j))
      }
    }
  }
  var a Matrix
  if real {
    a = NullDenseReal64Matrix(n, m)
  } else {
    a = NullDenseFloat64Matrix(n, m)
  }
  for i := 0; i < n; i++ {
    for j := 0; j < m; j++ {
      a.At(i, j).SetFloat64(a0[i*m+j])
    }
  }
  return a, a0
}

func govcGet(a ConstMatrix) ([]float64, int, int) {
  n, m := a.Dims()
  r := make([]float64, n*m)
  for i := 0; i < n; i++ {
    for j := 0; j < m; j++ {
      r[i*m+j] = a.ConstAt(i, j).GetFloat64()
    }
  }
  return r, n, m
}

// c = a*b (a: n x k, b: k x m), row-major
func govcMul(a []float64, n, k int, b []float64, m int) []float64 {
  c := make([]float64, n*m)
  for i := 0; i < n; i++ {
    for j := 0; j < m; j++ {
      s := 0.0
      for l := 0; l < k; l++ {
        s += a[i*k+l]*b[l*m+j]
      }
      c[i*m+j] = s
    }
  }
  return c
}

func govcTr(a []float64, n, m int) []float64 {
  c := make([]float64, n*m)
  for i := 0; i < n; i++ {
    for j := 0; j < m; j++ {
      c[j*n+i] = a[i*m+j]
    }
  }
  return c
}

func govcEqMat(name string, a, b []float64, n, m int) {
  for i := 0; i < n; i++ {
    for j := 0; j < m; j++ {
      govcCheckEq(fmt.Sprintf("%s[%d,%d]", name, i, j), a[i*m+j], b[i*m+j])
    }
  }
}

func govcOrthonormalCols(name string, q []float64, n, m int) {
  qtq := govcMul(govcTr(q, n, m), m, n, q, m)
  for i := 0; i < m; i++ {
    for j := 0; j < m; j++ {
      e := 0.0
      if i == j {
        e = 1.0
      }
      govcCheckEq(fmt.Sprintf("%s[%d,%d]", name, i, j), qtq[i*m+j], e)
    }
  }
}

func govcHessenberg(n int, real bool) {
  a, a0 := govcSymMat(n, n, real, false)
  h, u, err := Run(a, ComputeU{true})
  if err != nil {
    govcCheck("no-error", false)
    return
  }
  hv, _, _ := govcGet(h)
  uv, _, _ := govcGet(u)
  govcOrthonormalCols("U'U=I", uv, n, n)
  for i := 0; i < n; i++ {
    for j := 0; j+1 < i; j++ {
      govcCheckEq(fmt.Sprintf("H-hessenberg[%d,%d]", i, j), hv[i*n+j], 0.0)
    }
  }
  // H = U' A U  <=>  U H = A U
  govcEqMat("UH=AU", govcMul(uv, n, n, hv, n), govcMul(a0, n, n, uv, n), n, n)
}

func GovcHessenbergDense3() { govcHessenberg(3, false) }
func GovcHessenbergReal3()  { govcHessenberg(3, true) }

// in-situ buffers re-used for a second call
func govcHessenbergReuse(n int) {
  inSitu := &InSitu{}
  first := NullDenseFloat64Matrix(n, n)
  for i := 0; i < n; i++ {
    for j := 0; j < n; j++ {
      first.At(i, j).SetFloat64(float64(1 + i + 2*j + 3*((i+1)*(j+1)%2)))
    }
  }
  if _, _, err := Run(first, ComputeU{true}, inSitu); err != nil {
    govcCheck("no-error(first)", false)
    return
  }
  a, a0 := govcSymMat(n, n, false, false)
  h, u, err := Run(a, ComputeU{true}, inSitu)
  if err != nil {
    govcCheck("no-error", false)
    return
  }
  hv, _, _ := govcGet(h)
  uv, _, _ := govcGet(u)
  govcOrthonormalCols("U'U=I", uv, n, n)
  for i := 0; i < n; i++ {
    for j := 0; j+1 < i; j++ {
      govcCheckEq(fmt.Sprintf("H-hessenberg[%d,%d]", i, j), hv[i*n+j], 0.0)
    }
  }
  govcEqMat("UH=AU", govcMul(uv, n, n, hv, n), govcMul(a0, n, n, uv, n), n, n)
}

func GovcHessenbergReuse3() { govcHessenbergReuse(3) }
