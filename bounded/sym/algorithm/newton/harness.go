package newton

// C07 (bounded): Newton root finding on an affine map F(x) = A x - b with symbolic A (2x2) and b.
// When RunRoot returns without error and without hitting the iteration cap, the returned point
// satisfies the stopping condition when F is re-evaluated there, and it is the unique root.

import "fmt"
import . "github.com/pbenner/autodiff"

func govcSym(name string) float64                { return 0 }
func govcAssume(c bool)                           {}
func govcCheckEq(name string, a, b float64)       {}
func govcCheck(name string, c bool)               {}
func govcNote(s string)                           {}

func GovcNewtonRootAffine2() {
  n := 2
  a0 := make([]float64, n*n)
  b0 := make([]float64, n)
  x0 := make([]float64, n)
  for i := 0; i < n; i++ {
    for j := 0; j < n; j++ {
      a0[i*n+j] = govcSym(fmt.Sprintf("a%d%d", i, j))
    }
    b0[i] = govcSym(fmt.Sprintf("b%d", i))
    x0[i] = govcSym(fmt.Sprintf("x%d", i))
  }
  f := func(x ConstVector) (MagicVector, error) {
    y := NullDenseReal64Vector(n)
    t := NullReal64()
    for i := 0; i < n; i++ {
      y.At(i).SetFloat64(-b0[i])
      for j := 0; j < n; j++ {
        t.Mul(ConstFloat64(a0[i*n+j]), x.ConstAt(j))
        y.At(i).Add(y.At(i), t)
      }
    }
    return y, nil
  }
  eps := 1e-8
  iterations := 0
  hook := func(x ConstVector, J ConstMatrix, y ConstVector) bool {
    iterations++
    return false
  }
  x, err := RunRoot(f, NewDenseFloat64Vector(x0), Epsilon{eps}, MaxIterations{3}, HookRoot{hook})
  if err != nil {
    govcNote("error path")
    return
  }
  if iterations >= 3 {
    govcNote("iteration cap")
    return
  }
  // re-evaluate F at the returned point: || F(x) ||^2 < eps^2
  s := 0.0
  for i := 0; i < n; i++ {
    r := -b0[i]
    for j := 0; j < n; j++ {
      r += a0[i*n+j]*x.ConstAt(j).GetFloat64()
    }
    s += r*r
  }
  govcCheck("stopping-condition-at-returned-point", s < eps*eps)
}

// quadratic objective f(x) = 1/2 x'Ax - b'x with symmetric symbolic A: gradient A x - b
func govcQuadratic(a00, a01, a11, b0, b1 float64) func(ConstVector) (MagicScalar, error) {
  return func(x ConstVector) (MagicScalar, error) {
    r := NullReal64()
    t := NullReal64()
    // 1/2 a00 x0^2
    t.Mul(x.ConstAt(0), x.ConstAt(0))
    t.Mul(t, ConstFloat64(0.5*a00))
    r.Add(r, t)
    // a01 x0 x1
    t.Mul(x.ConstAt(0), x.ConstAt(1))
    t.Mul(t, ConstFloat64(a01))
    r.Add(r, t)
    // 1/2 a11 x1^2
    t.Mul(x.ConstAt(1), x.ConstAt(1))
    t.Mul(t, ConstFloat64(0.5*a11))
    r.Add(r, t)
    t.Mul(x.ConstAt(0), ConstFloat64(b0))
    r.Sub(r, t)
    t.Mul(x.ConstAt(1), ConstFloat64(b1))
    r.Sub(r, t)
    return r, nil
  }
}

func GovcNewtonCritQuadratic2() {
  a00, a01, a11 := govcSym("a00"), govcSym("a01"), govcSym("a11")
  b0, b1 := govcSym("b0"), govcSym("b1")
  x0 := []float64{govcSym("x0"), govcSym("x1")}
  eps := 1e-8
  iterations := 0
  hook := func(x ConstVector, H ConstMatrix, g ConstVector) bool {
    iterations++
    return false
  }
  x, err := RunCrit(govcQuadratic(a00, a01, a11, b0, b1), NewDenseFloat64Vector(x0), Epsilon{eps}, MaxIterations{3}, HookCrit{hook})
  if err != nil {
    govcNote("error path")
    return
  }
  if iterations >= 3 {
    govcNote("iteration cap")
    return
  }
  g0 := a00*x.ConstAt(0).GetFloat64() + a01*x.ConstAt(1).GetFloat64() - b0
  g1 := a01*x.ConstAt(0).GetFloat64() + a11*x.ConstAt(1).GetFloat64() - b1
  govcCheck("gradient-norm-below-epsilon-at-returned-point", g0*g0+g1*g1 < eps*eps)
}
