package determinant

// C06 (bounded): derivatives carried through the determinant equal the analytic ones
// (d det A / d a_ij = cofactor_ij; second derivatives of the 2x2 case), and C04: the
// positive-definite (Cholesky) route equals the Leibniz formula, log scale its logarithm.

import "fmt"
import "math"
import . "github.com/pbenner/autodiff"

func govcLeibniz(a0 []float64, n int) float64 {
  switch n {
  case 1:
    return a0[0]
  case 2:
    return a0[0]*a0[3] - a0[1]*a0[2]
  case 3:
    return a0[0]*(a0[4]*a0[8] - a0[5]*a0[7]) - a0[1]*(a0[3]*a0[8] - a0[5]*a0[6]) + a0[2]*(a0[3]*a0[7] - a0[4]*a0[6])
  }
  return 0
}

// cofactor (i,j) of an n x n matrix, n = 2, 3
func govcCofactor(a0 []float64, n, i, j int) float64 {
  var m []float64
  for r := 0; r < n; r++ {
    for c := 0; c < n; c++ {
      if r != i && c != j {
        m = append(m, a0[r*n+c])
      }
    }
  }
  d := govcLeibniz(m, n-1)
  if (i+j)%2 == 1 {
    d = -d
  }
  return d
}

func govcDetDerivative(n int, order int) {
  a0 := make([]float64, n*n)
  a := NullDenseReal64Matrix(n, n)
  for i := 0; i < n; i++ {
    for j := 0; j < n; j++ {
      a0[i*n+j] = govcSym(fmt.Sprintf("a%d%d", i, j))
      a.At(i, j).SetFloat64(a0[i*n+j])
    }
  }
  a.Variables(order)
  d, err := Run(a)
  if err != nil {
    govcCheck("no-error", false)
    return
  }
  govcCheckEq("det=leibniz", d.GetFloat64(), govcLeibniz(a0, n))
  govcCheck("order", d.GetOrder() == order && d.GetN() == n*n)
  for i := 0; i < n; i++ {
    for j := 0; j < n; j++ {
      govcCheckEq(fmt.Sprintf("ddet/da[%d,%d]=cofactor", i, j), d.GetDerivative(i*n+j), govcCofactor(a0, n, i, j))
    }
  }
  if order >= 2 && n == 2 {
    // det = a00 a11 - a01 a10: the only non-zero second derivatives are the mixed ones
    for p := 0; p < 4; p++ {
      for q := 0; q < 4; q++ {
        e := 0.0
        if (p == 0 && q == 3) || (p == 3 && q == 0) {
          e = 1.0
        }
        if (p == 1 && q == 2) || (p == 2 && q == 1) {
          e = -1.0
        }
        govcCheckEq(fmt.Sprintf("d2det[%d,%d]", p, q), d.GetHessian(p, q), e)
      }
    }
  }
}

func GovcDetDerivative2()  { govcDetDerivative(2, 1) }
func GovcDetDerivative3()  { govcDetDerivative(3, 1) }
func GovcDetHessian2()     { govcDetDerivative(2, 2) }

func govcDetPD(n int, logScale bool, real bool) {
  a0 := make([]float64, n*n)
  for i := 0; i < n; i++ {
    for j := 0; j < n; j++ {
      if j < i {
        a0[i*n+j] = a0[j*n+i]
      } else {
        a0[i*n+j] = govcSym(fmt.Sprintf("a%d%d", i, j))
      }
    }
  }
  var a Matrix
  if real {
    a = NullDenseReal64Matrix(n, n)
  } else {
    a = NullDenseFloat64Matrix(n, n)
  }
  for i := 0; i < n; i++ {
    for j := 0; j < n; j++ {
      a.At(i, j).SetFloat64(a0[i*n+j])
    }
  }
  var d Scalar
  var err error
  if logScale {
    d, err = Run(a, PositiveDefinite{true}, LogScale{true})
  } else {
    d, err = Run(a, PositiveDefinite{true})
  }
  if err != nil {
    govcNote("not positive definite on this path")
    return
  }
  if logScale {
    govcCheckEq("logdet=log(leibniz)", d.GetFloat64(), math.Log(govcLeibniz(a0, n)))
  } else {
    govcCheckEq("detPD=leibniz", d.GetFloat64(), govcLeibniz(a0, n))
  }
}

func GovcDetPD2()       { govcDetPD(2, false, false) }
func GovcDetPD3()       { govcDetPD(3, false, false) }
func GovcDetPDReal2()   { govcDetPD(2, false, true) }
func GovcLogDetPD2()    { govcDetPD(2, true, false) }
func GovcLogDetPD3()    { govcDetPD(3, true, false) }
