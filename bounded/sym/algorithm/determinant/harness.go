package determinant

import "fmt"
import . "github.com/pbenner/autodiff"

func govcSym(name string) float64                { return 0 }
func govcAssume(c bool)                           {}
func govcCheckEq(name string, a, b float64)       {}
func govcCheck(name string, c bool)               {}
func govcNote(s string)                           {}

func govcDet(n int) {
  a0 := make([]float64, n*n)
  a := NullDenseFloat64Matrix(n, n)
  for i := 0; i < n; i++ {
    for j := 0; j < n; j++ {
      a0[i*n+j] = govcSym(fmt.Sprintf("a%d%d", i, j))
      a.At(i, j).SetFloat64(a0[i*n+j])
    }
  }
  d, err := Run(a)
  if err != nil {
    govcCheck("no-error", false)
    return
  }
  // Leibniz formula
  e := 0.0
  switch n {
  case 1:
    e = a0[0]
  case 2:
    e = a0[0]*a0[3] - a0[1]*a0[2]
  case 3:
    e = a0[0]*(a0[4]*a0[8] - a0[5]*a0[7]) - a0[1]*(a0[3]*a0[8] - a0[5]*a0[6]) + a0[2]*(a0[3]*a0[7] - a0[4]*a0[6])
  }
  govcCheckEq("det=leibniz", d.GetFloat64(), e)
}

func GovcDet1() { govcDet(1) }
func GovcDet2() { govcDet(2) }
func GovcDet3() { govcDet(3) }
