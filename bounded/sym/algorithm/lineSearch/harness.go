package lineSearch

// C07 (bounded): line search on a symbolic quadratic phi(alpha) = c0 + c1 alpha + c2 alpha^2 with
// phi'(0) < 0. When Run returns without error before its evaluation budget is used up, the returned step
// satisfies the strong Wolfe conditions (sufficient decrease with 1e-4, curvature with 0.9).

import . "github.com/pbenner/autodiff"

func govcSym(name string) float64                { return 0 }
func govcAssume(c bool)                           {}
func govcCheckEq(name string, a, b float64)       {}
func govcCheck(name string, c bool)               {}
func govcNote(s string)                           {}

func GovcLineSearchQuadratic() {
  c0, c1, c2 := govcSym("c0"), govcSym("c1"), govcSym("c2")
  govcAssume(c1 < 0.0)
  govcAssume(c2 > 0.0)
  maxEval := 3
  evals := 0
  phi := func(alpha ConstScalar) (MagicScalar, error) {
    evals++
    r := NullReal64()
    t := NullReal64()
    t.Mul(alpha, alpha)
    t.Mul(t, ConstFloat64(c2))
    r.Add(r, t)
    t.Mul(alpha, ConstFloat64(c1))
    r.Add(r, t)
    r.Add(r, ConstFloat64(c0))
    return r, nil
  }
  a, err := Run(phi, Float64Type, Parameters{1, maxEval})
  if err != nil {
    govcNote("error path")
    return
  }
  if evals >= 1+maxEval {
    govcNote("evaluation budget used up")
    return
  }
  alpha := a.GetFloat64()
  y0, g0 := c0, c1
  y := c0 + c1*alpha + c2*alpha*alpha
  g := c1 + 2*c2*alpha
  govcCheck("wolfe-sufficient-decrease", y <= y0 + 1e-4*alpha*g0)
  govcCheck("wolfe-curvature(+)", g <= -0.9*g0)
  govcCheck("wolfe-curvature(-)", -g <= -0.9*g0)
  govcCheck("positive-step", alpha > 0.0)
}
