package gaussJordan

// Row bookkeeping for every pivot order at sizes 4 and 5 (bounded): the matrix is a generalised
// permutation matrix (one non-zero per row and column, entry values 2, 3, 5, ...), so that the
// pivot order is exactly the chosen permutation and the algebra is trivial; the right-hand side
// is symbolic. Every permutation of the size is enumerated.

import "fmt"
import . "github.com/pbenner/autodiff"

func govcPermutations(n int) [][]int {
  if n == 1 {
    return [][]int{{0}}
  }
  var r [][]int
  for _, p := range govcPermutations(n-1) {
    for k := 0; k <= len(p); k++ {
      q := append(append(append([]int{}, p[:k]...), n-1), p[k:]...)
      r = append(r, q)
    }
  }
  return r
}

func govcGaussJordanPerm(n int, dense bool) {
  primes := []float64{2, 3, 5, 7, 11, 13}
  b0 := make([]float64, n)
  for i := 0; i < n; i++ {
    b0[i] = govcSym(fmt.Sprintf("b%d", i))
  }
  for _, sigma := range govcPermutations(n) {
    a0 := make([]float64, n*n)
    for i := 0; i < n; i++ {
      a0[i*n+sigma[i]] = primes[i]
    }
    var a, x Matrix
    var b Vector
    if dense {
      a = NullDenseFloat64Matrix(n, n)
      x = NullDenseFloat64Matrix(n, n)
      b = NullDenseFloat64Vector(n)
    } else {
      a = NullDenseReal64Matrix(n, n)
      x = NullDenseReal64Matrix(n, n)
      b = NullDenseReal64Vector(n)
    }
    for i := 0; i < n; i++ {
      for j := 0; j < n; j++ {
        a.At(i, j).SetFloat64(a0[i*n+j])
      }
      b.At(i).SetFloat64(b0[i])
    }
    x.SetIdentity()
    if err := Run(a, x, b); err != nil {
      govcCheck(fmt.Sprintf("no-error%v", sigma), false)
      continue
    }
    for i := 0; i < n; i++ {
      // row i of A has its single entry in column sigma[i]
      govcCheckEq(fmt.Sprintf("Ax=b%v[%d]", sigma, i), primes[i]*b.ConstAt(sigma[i]).GetFloat64(), b0[i])
      for k := 0; k < n; k++ {
        e := 0.0
        if i == k {
          e = 1.0
        }
        govcCheckEq(fmt.Sprintf("AX=I%v[%d,%d]", sigma, i, k), primes[i]*x.ConstAt(sigma[i], k).GetFloat64(), e)
      }
    }
  }
}

func GovcGaussJordanPermDense4()   { govcGaussJordanPerm(4, true) }
func GovcGaussJordanPermGeneric4() { govcGaussJordanPerm(4, false) }
func GovcGaussJordanPermDense5()   { govcGaussJordanPerm(5, true) }
func GovcGaussJordanPermGeneric5() { govcGaussJordanPerm(5, false) }
