package gaussJordan

// C06 (bounded): the solution of A x = b carried on magic scalars has the analytic derivatives
// dx/db_j = inv(A) e_j and dx/da_ij = -inv(A) e_i x_j.

import "fmt"
import . "github.com/pbenner/autodiff"

func govcSolveDerivative(n int) {
  a0 := make([]float64, n*n)
  b0 := make([]float64, n)
  a := NullDenseReal64Matrix(n, n)
  x := NullDenseReal64Matrix(n, n)
  b := NullDenseReal64Vector(n)
  var vars []MagicScalar
  for i := 0; i < n; i++ {
    for j := 0; j < n; j++ {
      a0[i*n+j] = govcSym(fmt.Sprintf("a%d%d", i, j))
      a.At(i, j).SetFloat64(a0[i*n+j])
      vars = append(vars, a.At(i, j).(MagicScalar))
    }
  }
  for i := 0; i < n; i++ {
    b0[i] = govcSym(fmt.Sprintf("b%d", i))
    b.At(i).SetFloat64(b0[i])
    vars = append(vars, b.At(i).(MagicScalar))
  }
  Variables(1, vars...)
  x.SetIdentity()
  if err := Run(a, x, b); err != nil {
    govcCheck("no-error", false)
    return
  }
  // x now holds inv(A) (values), b the solution with derivatives
  for k := 0; k < n; k++ {
    for j := 0; j < n; j++ {
      govcCheckEq(fmt.Sprintf("dx[%d]/db[%d]", k, j), b.ConstAt(k).GetDerivative(n*n+j), x.ConstAt(k, j).GetFloat64())
      for i := 0; i < n; i++ {
        e := -x.ConstAt(k, i).GetFloat64()*b.ConstAt(j).GetFloat64()
        govcCheckEq(fmt.Sprintf("dx[%d]/da[%d,%d]", k, i, j), b.ConstAt(k).GetDerivative(i*n+j), e)
      }
    }
  }
}

func GovcSolveDerivative2() { govcSolveDerivative(2) }
