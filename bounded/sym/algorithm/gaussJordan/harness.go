package gaussJordan

// Bounded symbolic harness (interpreted by govc's bsym engine, never compiled into the library):
// Gauss-Jordan on a symbolic n x n system, every pivot order, checked against A*x = b and A*X = I.

import "fmt"
import . "github.com/pbenner/autodiff"

func govcSym(name string) float64                { return 0 }
func govcAssume(c bool)                           {}
func govcCheckEq(name string, a, b float64)       {}
func govcCheck(name string, c bool)               {}
func govcNote(s string)                           {}

func govcGaussJordan(n int, dense bool) {
  a0 := make([]float64, n*n)
  b0 := make([]float64, n)
  for i := 0; i < n; i++ {
    for j := 0; j < n; j++ {
      a0[i*n+j] = govcSym(fmt.Sprintf("a%d%d", i, j))
    }
    b0[i] = govcSym(fmt.Sprintf("b%d", i))
  }
  var a, x Matrix
  var b Vector
  if dense {
    a = NewDenseFloat64Matrix(append([]float64{}, a0...), n, n)
    x = NullDenseFloat64Matrix(n, n)
    b = NewDenseFloat64Vector(append([]float64{}, b0...))
  } else {
    a = NullDenseReal64Matrix(n, n)
    x = NullDenseReal64Matrix(n, n)
    b = NullDenseReal64Vector(n)
    for i := 0; i < n; i++ {
      for j := 0; j < n; j++ {
        a.At(i, j).SetFloat64(a0[i*n+j])
      }
      b.At(i).SetFloat64(b0[i])
    }
  }
  x.SetIdentity()
  if err := Run(a, x, b); err != nil {
    govcCheck("no-error", false)
    return
  }
  // A0 * b' == b0  (b now holds the solution) and A0 * X == I
  for i := 0; i < n; i++ {
    s := 0.0
    for j := 0; j < n; j++ {
      s += a0[i*n+j]*b.ConstAt(j).GetFloat64()
    }
    govcCheckEq(fmt.Sprintf("Ax=b[%d]", i), s, b0[i])
    for k := 0; k < n; k++ {
      t := 0.0
      for j := 0; j < n; j++ {
        t += a0[i*n+j]*x.ConstAt(j, k).GetFloat64()
      }
      e := 0.0
      if i == k {
        e = 1.0
      }
      govcCheckEq(fmt.Sprintf("AX=I[%d,%d]", i, k), t, e)
    }
  }
}

func GovcGaussJordanDense2()   { govcGaussJordan(2, true) }
func GovcGaussJordanDense3()   { govcGaussJordan(3, true) }
func GovcGaussJordanGeneric2() { govcGaussJordan(2, false) }
func GovcGaussJordanGeneric3() { govcGaussJordan(3, false) }
