package gaussJordan

// option combinations (bounded): upper-triangular fast path, sub-matrix selection

import "fmt"
import . "github.com/pbenner/autodiff"

func govcGaussJordanUpper(n int, dense bool) {
  a0 := make([]float64, n*n)
  b0 := make([]float64, n)
  var a, x Matrix
  var b Vector
  if dense {
    a = NullDenseFloat64Matrix(n, n)
    x = NullDenseFloat64Matrix(n, n)
    b = NullDenseFloat64Vector(n)
  } else {
    a = NullDenseReal64Matrix(n, n)
    x = NullDenseReal64Matrix(n, n)
    b = NullDenseReal64Vector(n)
  }
  for i := 0; i < n; i++ {
    for j := i; j < n; j++ {
      a0[i*n+j] = govcSym(fmt.Sprintf("a%d%d", i, j))
      a.At(i, j).SetFloat64(a0[i*n+j])
    }
    b0[i] = govcSym(fmt.Sprintf("b%d", i))
    b.At(i).SetFloat64(b0[i])
  }
  x.SetIdentity()
  if err := Run(a, x, b, UpperTriangular{true}); err != nil {
    govcCheck("no-error", false)
    return
  }
  for i := 0; i < n; i++ {
    s := 0.0
    for j := 0; j < n; j++ {
      s += a0[i*n+j]*b.ConstAt(j).GetFloat64()
    }
    govcCheckEq(fmt.Sprintf("Ax=b[%d]", i), s, b0[i])
    for k := 0; k < n; k++ {
      t := 0.0
      for j := 0; j < n; j++ {
        t += a0[i*n+j]*x.ConstAt(j, k).GetFloat64()
      }
      e := 0.0
      if i == k {
        e = 1.0
      }
      govcCheckEq(fmt.Sprintf("AX=I[%d,%d]", i, k), t, e)
    }
  }
}

func GovcGaussJordanUpperDense3()   { govcGaussJordanUpper(3, true) }
func GovcGaussJordanUpperGeneric3() { govcGaussJordanUpper(3, false) }

// sub-matrix selection: only the rows/columns flagged true take part; the solution of the selected
// sub-system must satisfy its equations
func govcGaussJordanSub(dense bool) {
  n := 3
  sel := []bool{true, false, true}
  a0 := make([]float64, n*n)
  b0 := make([]float64, n)
  var a, x Matrix
  var b Vector
  if dense {
    a = NullDenseFloat64Matrix(n, n)
    x = NullDenseFloat64Matrix(n, n)
    b = NullDenseFloat64Vector(n)
  } else {
    a = NullDenseReal64Matrix(n, n)
    x = NullDenseReal64Matrix(n, n)
    b = NullDenseReal64Vector(n)
  }
  for i := 0; i < n; i++ {
    for j := 0; j < n; j++ {
      a0[i*n+j] = govcSym(fmt.Sprintf("a%d%d", i, j))
      a.At(i, j).SetFloat64(a0[i*n+j])
    }
    b0[i] = govcSym(fmt.Sprintf("b%d", i))
    b.At(i).SetFloat64(b0[i])
  }
  x.SetIdentity()
  if err := Run(a, x, b, Submatrix{sel}); err != nil {
    govcCheck("no-error", false)
    return
  }
  for i := 0; i < n; i++ {
    if !sel[i] {
      continue
    }
    s := 0.0
    for j := 0; j < n; j++ {
      if sel[j] {
        s += a0[i*n+j]*b.ConstAt(j).GetFloat64()
      }
    }
    govcCheckEq(fmt.Sprintf("sub:Ax=b[%d]", i), s, b0[i])
    for k := 0; k < n; k++ {
      if !sel[k] {
        continue
      }
      t := 0.0
      for j := 0; j < n; j++ {
        if sel[j] {
          t += a0[i*n+j]*x.ConstAt(j, k).GetFloat64()
        }
      }
      e := 0.0
      if i == k {
        e = 1.0
      }
      govcCheckEq(fmt.Sprintf("sub:AX=I[%d,%d]", i, k), t, e)
    }
  }
}

func GovcGaussJordanSubDense()   { govcGaussJordanSub(true) }
func GovcGaussJordanSubGeneric() { govcGaussJordanSub(false) }
