package matrixInverse

import "fmt"
import . "github.com/pbenner/autodiff"

func govcSym(name string) float64                { return 0 }
func govcAssume(c bool)                           {}
func govcCheckEq(name string, a, b float64)       {}
func govcCheck(name string, c bool)               {}
func govcNote(s string)                           {}

func govcSymMatrix(n int, real bool, sym bool) (Matrix, []float64) {
  a0 := make([]float64, n*n)
  for i := 0; i < n; i++ {
    for j := 0; j < n; j++ {
      if sym && j < i {
        a0[i*n+j] = a0[j*n+i]
      } else {
        a0[i*n+j] = govcSym(fmt.Sprintf("a%d%d", i, j))
      }
    }
  }
  var a Matrix
  if real {
    a = NullDenseReal64Matrix(n, n)
  } else {
    a = NullDenseFloat64Matrix(n, n)
  }
  for i := 0; i < n; i++ {
    for j := 0; j < n; j++ {
      a.At(i, j).SetFloat64(a0[i*n+j])
    }
  }
  return a, a0
}

func govcInverse(n int, real bool) {
  a, a0 := govcSymMatrix(n, real, false)
  x, err := Run(a)
  if err != nil {
    govcCheck("no-error", false)
    return
  }
  for i := 0; i < n; i++ {
    for k := 0; k < n; k++ {
      t := 0.0
      for j := 0; j < n; j++ {
        t += a0[i*n+j]*x.ConstAt(j, k).GetFloat64()
      }
      e := 0.0
      if i == k {
        e = 1.0
      }
      govcCheckEq(fmt.Sprintf("A*inv(A)=I[%d,%d]", i, k), t, e)
      // the input is left unchanged (C12)
      govcCheckEq(fmt.Sprintf("input-unchanged[%d,%d]", i, k), a.ConstAt(i, k).GetFloat64(), a0[i*n+k])
    }
  }
}

func GovcInverseDense2() { govcInverse(2, false) }
func GovcInverseDense3() { govcInverse(3, false) }
func GovcInverseReal2()  { govcInverse(2, true) }
func GovcInverseReal3()  { govcInverse(3, true) }
