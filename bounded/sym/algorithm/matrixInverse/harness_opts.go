package matrixInverse

// option combinations (bounded): positive-definite route (Cholesky + triangular solves), upper-triangular
// route, caller-supplied in-situ buffers holding other values

import "fmt"
import . "github.com/pbenner/autodiff"

func govcCheckInverse(tag string, a0 []float64, x ConstMatrix, n int) {
  for i := 0; i < n; i++ {
    for k := 0; k < n; k++ {
      t := 0.0
      for j := 0; j < n; j++ {
        t += a0[i*n+j]*x.ConstAt(j, k).GetFloat64()
      }
      e := 0.0
      if i == k {
        e = 1.0
      }
      govcCheckEq(fmt.Sprintf("%s:A*inv(A)=I[%d,%d]", tag, i, k), t, e)
    }
  }
}

func govcInversePD(n int, real bool) {
  a, a0 := govcSymMatrix(n, real, true)
  x, err := Run(a, PositiveDefinite{true})
  if err != nil {
    govcNote("not positive definite on this path")
    return
  }
  govcCheckInverse("pd", a0, x, n)
}

func GovcInversePD2()     { govcInversePD(2, false) }
func GovcInversePD3()     { govcInversePD(3, false) }
func GovcInversePDReal2() { govcInversePD(2, true) }

func govcInverseUpper(n int, real bool) {
  a0 := make([]float64, n*n)
  var a Matrix
  if real {
    a = NullDenseReal64Matrix(n, n)
  } else {
    a = NullDenseFloat64Matrix(n, n)
  }
  for i := 0; i < n; i++ {
    for j := i; j < n; j++ {
      a0[i*n+j] = govcSym(fmt.Sprintf("a%d%d", i, j))
      a.At(i, j).SetFloat64(a0[i*n+j])
    }
  }
  x, err := Run(a, UpperTriangular{true})
  if err != nil {
    govcCheck("no-error", false)
    return
  }
  govcCheckInverse("upper", a0, x, n)
}

func GovcInverseUpper2()     { govcInverseUpper(2, false) }
func GovcInverseUpper3()     { govcInverseUpper(3, false) }
func GovcInverseUpperReal3() { govcInverseUpper(3, true) }

// in-situ buffers that already hold other values
func GovcInverseInSitu2() {
  n := 2
  a, a0 := govcSymMatrix(n, false, false)
  g := func() Matrix {
    m := NullDenseFloat64Matrix(n, n)
    for i := 0; i < n; i++ {
      for j := 0; j < n; j++ {
        m.At(i, j).SetFloat64(7.0 + float64(i*n+j))
      }
    }
    return m
  }
  bv := NullDenseFloat64Vector(n)
  bv.At(0).SetFloat64(5.0)
  inSitu := &InSitu{Id: g(), A: g(), B: bv}
  x, err := Run(a, inSitu)
  if err != nil {
    govcCheck("no-error", false)
    return
  }
  govcCheckInverse("insitu", a0, x, n)
  // and again with the same buffers
  x, err = Run(a, inSitu)
  if err != nil {
    govcCheck("no-error(2)", false)
    return
  }
  govcCheckInverse("insitu-reused", a0, x, n)
}
