package matrixInverse

// C06 (bounded): d inv(A)_kl / d a_ij = -inv(A)_ki inv(A)_jl on magic scalars, and the
// specialised Float64 path returns the same values as the generic scalar-interface path.

import "fmt"
import . "github.com/pbenner/autodiff"

func govcInverseDerivative(n int) {
  a0 := make([]float64, n*n)
  a := NullDenseReal64Matrix(n, n)
  f := NullDenseFloat64Matrix(n, n)
  for i := 0; i < n; i++ {
    for j := 0; j < n; j++ {
      a0[i*n+j] = govcSym(fmt.Sprintf("a%d%d", i, j))
      a.At(i, j).SetFloat64(a0[i*n+j])
      f.At(i, j).SetFloat64(a0[i*n+j])
    }
  }
  a.Variables(1)
  x, err := Run(a)
  if err != nil {
    govcCheck("no-error", false)
    return
  }
  y, err := Run(f)
  if err != nil {
    govcCheck("no-error(float)", false)
    return
  }
  for k := 0; k < n; k++ {
    for l := 0; l < n; l++ {
      govcCheckEq(fmt.Sprintf("fast=generic[%d,%d]", k, l), y.ConstAt(k, l).GetFloat64(), x.ConstAt(k, l).GetFloat64())
      govcCheck(fmt.Sprintf("order[%d,%d]", k, l), x.ConstAt(k, l).GetOrder() == 1 && x.ConstAt(k, l).GetN() == n*n)
      for i := 0; i < n; i++ {
        for j := 0; j < n; j++ {
          e := -x.ConstAt(k, i).GetFloat64()*x.ConstAt(j, l).GetFloat64()
          govcCheckEq(fmt.Sprintf("dinv[%d,%d]/da[%d,%d]", k, l, i, j), x.ConstAt(k, l).GetDerivative(i*n+j), e)
        }
      }
    }
  }
}

func GovcInverseDerivative2() { govcInverseDerivative(2) }
func GovcInverseDerivative3() { govcInverseDerivative(3) }
