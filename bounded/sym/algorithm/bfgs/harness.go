package bfgs

// C12 (bounded): bfgs.Run leaves the caller's initial Hessian approximation and start point unchanged

import "fmt"
import . "github.com/pbenner/autodiff"

func govcSym(name string) float64                { return 0 }
func govcAssume(c bool)                           {}
func govcCheckEq(name string, a, b float64)       {}
func govcCheck(name string, c bool)               {}
func govcNote(s string)                           {}

func GovcC12BfgsHessianUnchanged() {
  n := 2
  b0 := []float64{govcSym("h00"), govcSym("h01"), govcSym("h01"), govcSym("h11")}
  B := NewDenseFloat64Matrix(append([]float64{}, b0...), n, n)
  x0v := []float64{govcSym("x0"), govcSym("x1")}
  x0 := NewDenseFloat64Vector(append([]float64{}, x0v...))
  f := func(x ConstVector) (MagicScalar, error) {
    r := NullReal64()
    t := NullReal64()
    t.Mul(x.ConstAt(0), x.ConstAt(0))
    r.Add(r, t)
    t.Mul(x.ConstAt(1), x.ConstAt(1))
    r.Add(r, t)
    return r, nil
  }
  // no iterations: only the set-up (which inverts the initial Hessian approximation) runs
  Run(f, x0, Hessian{B}, MaxIterations{0})
  for i := 0; i < n; i++ {
    govcCheckEq(fmt.Sprintf("x0[%d]", i), x0.ConstAt(i).GetFloat64(), x0v[i])
    for j := 0; j < n; j++ {
      govcCheckEq(fmt.Sprintf("B0[%d,%d]", i, j), B.ConstAt(i, j).GetFloat64(), b0[i*n+j])
    }
  }
}
