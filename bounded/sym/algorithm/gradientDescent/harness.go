package gradientDescent

// C07 (bounded): gradient descent on a symbolic quadratic; the hook stops the run after three
// evaluations (hook-requested stops are outside the property). When Run returns by its own stopping
// rule, the gradient re-evaluated at the returned point is below epsilon; the values handed to the hook
// are the function value and gradient at the point handed with them.

import . "github.com/pbenner/autodiff"

func govcSym(name string) float64                { return 0 }
func govcAssume(c bool)                           {}
func govcCheckEq(name string, a, b float64)       {}
func govcCheck(name string, c bool)               {}
func govcNote(s string)                           {}

// quadratic objective f(x) = 1/2 x'Ax - b'x with symmetric symbolic A: gradient A x - b
func govcQuadratic(a00, a01, a11, b0, b1 float64) func(ConstVector) (MagicScalar, error) {
  return func(x ConstVector) (MagicScalar, error) {
    r := NullReal64()
    t := NullReal64()
    t.Mul(x.ConstAt(0), x.ConstAt(0))
    t.Mul(t, ConstFloat64(0.5*a00))
    r.Add(r, t)
    t.Mul(x.ConstAt(0), x.ConstAt(1))
    t.Mul(t, ConstFloat64(a01))
    r.Add(r, t)
    t.Mul(x.ConstAt(1), x.ConstAt(1))
    t.Mul(t, ConstFloat64(0.5*a11))
    r.Add(r, t)
    t.Mul(x.ConstAt(0), ConstFloat64(b0))
    r.Sub(r, t)
    t.Mul(x.ConstAt(1), ConstFloat64(b1))
    r.Sub(r, t)
    return r, nil
  }
}

func GovcGradientDescentQuadratic2() {
  a00, a01, a11 := govcSym("a00"), govcSym("a01"), govcSym("a11")
  b0, b1 := govcSym("b0"), govcSym("b1")
  x0 := []float64{govcSym("x0"), govcSym("x1")}
  step := govcSym("step")
  eps := 1e-8
  evals := 0
  stopped := false
  hook := func(gradient []float64, x ConstVector, y ConstScalar) bool {
    evals++
    // hook arguments: gradient and value at x
    h0 := a00*x.ConstAt(0).GetFloat64() + a01*x.ConstAt(1).GetFloat64() - b0
    h1 := a01*x.ConstAt(0).GetFloat64() + a11*x.ConstAt(1).GetFloat64() - b1
    govcCheckEq("hook-gradient[0]", gradient[0], h0)
    govcCheckEq("hook-gradient[1]", gradient[1], h1)
    u0, u1 := x.ConstAt(0).GetFloat64(), x.ConstAt(1).GetFloat64()
    govcCheckEq("hook-value", y.GetFloat64(), 0.5*a00*u0*u0 + a01*u0*u1 + 0.5*a11*u1*u1 - b0*u0 - b1*u1)
    if evals >= 3 {
      stopped = true
      return true
    }
    return false
  }
  x, err := Run(govcQuadratic(a00, a01, a11, b0, b1), NewDenseFloat64Vector(x0), step, Hook{hook}, Epsilon{eps})
  if err != nil {
    govcNote("error path")
    return
  }
  if stopped {
    govcNote("hook-requested stop")
    return
  }
  g0 := a00*x.ConstAt(0).GetFloat64() + a01*x.ConstAt(1).GetFloat64() - b0
  g1 := a01*x.ConstAt(0).GetFloat64() + a11*x.ConstAt(1).GetFloat64() - b1
  govcCheck("gradient-norm-below-epsilon-at-returned-point", g0*g0+g1*g1 < eps*eps)
}
