package cholesky

import "fmt"
import . "github.com/pbenner/autodiff"

func govcSym(name string) float64                { return 0 }
func govcAssume(c bool)                           {}
func govcCheckEq(name string, a, b float64)       {}
func govcCheck(name string, c bool)               {}
func govcNote(s string)                           {}

func govcCholesky(n int, real bool, ldl bool) {
  a0 := make([]float64, n*n)
  for i := 0; i < n; i++ {
    for j := 0; j < n; j++ {
      if j < i {
        a0[i*n+j] = a0[j*n+i]
      } else {
        a0[i*n+j] = govcSym(fmt.Sprintf("a%d%d", i, j))
      }
    }
  }
  var a Matrix
  if real {
    a = NullDenseReal64Matrix(n, n)
  } else {
    a = NullDenseFloat64Matrix(n, n)
  }
  for i := 0; i < n; i++ {
    for j := 0; j < n; j++ {
      a.At(i, j).SetFloat64(a0[i*n+j])
    }
  }
  var l, d Matrix
  var err error
  if ldl {
    l, d, err = Run(a, LDL{true})
  } else {
    l, d, err = Run(a)
  }
  if err != nil {
    // "not positive definite" on this path: nothing to check
    govcNote("error path")
    return
  }
  for i := 0; i < n; i++ {
    for k := 0; k < n; k++ {
      // structure: L lower triangular (unit for LDL), D diagonal
      if k > i {
        govcCheckEq(fmt.Sprintf("L-lower[%d,%d]", i, k), l.ConstAt(i, k).GetFloat64(), 0.0)
      }
      if ldl {
        if k == i {
          govcCheckEq(fmt.Sprintf("L-unit[%d]", i), l.ConstAt(i, i).GetFloat64(), 1.0)
        } else {
          govcCheckEq(fmt.Sprintf("D-diag[%d,%d]", i, k), d.ConstAt(i, k).GetFloat64(), 0.0)
        }
      }
      t := 0.0
      for j := 0; j < n; j++ {
        if ldl {
          t += l.ConstAt(i, j).GetFloat64()*d.ConstAt(j, j).GetFloat64()*l.ConstAt(k, j).GetFloat64()
        } else {
          t += l.ConstAt(i, j).GetFloat64()*l.ConstAt(k, j).GetFloat64()
        }
      }
      govcCheckEq(fmt.Sprintf("LL'=A[%d,%d]", i, k), t, a0[i*n+k])
    }
  }
}

func GovcCholeskyDense2()  { govcCholesky(2, false, false) }
func GovcCholeskyDense3()  { govcCholesky(3, false, false) }
func GovcCholeskyReal2()   { govcCholesky(2, true, false) }
func GovcCholeskyReal3()   { govcCholesky(3, true, false) }
func GovcLDLDense2()       { govcCholesky(2, false, true) }
func GovcLDLDense3()       { govcCholesky(3, false, true) }
func GovcLDLReal3()        { govcCholesky(3, true, true) }
