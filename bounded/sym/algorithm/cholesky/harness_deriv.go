package cholesky

// C06 (bounded): derivative of the Cholesky factor. Differentiating L L' = A with respect to an
// entry a_pq (p <= q, the matrix is filled symmetrically) gives dL L' + L dL' = E_pq + E_qp (E_pp once).

import "fmt"
import . "github.com/pbenner/autodiff"

func govcCholeskyDerivative(n int) {
  a := NullDenseReal64Matrix(n, n)
  var vars []MagicScalar
  idx := map[int]int{}
  // independent variables: the upper triangle; the lower triangle holds copies (with their derivatives)
  for i := 0; i < n; i++ {
    for j := i; j < n; j++ {
      a.At(i, j).SetFloat64(govcSym(fmt.Sprintf("a%d%d", i, j)))
      idx[i*n+j] = len(vars)
      vars = append(vars, a.At(i, j).(MagicScalar))
    }
  }
  Variables(1, vars...)
  for i := 0; i < n; i++ {
    for j := 0; j < i; j++ {
      a.At(i, j).Set(a.ConstAt(j, i))
    }
  }
  l, _, err := Run(a)
  if err != nil {
    govcNote("error path")
    return
  }
  for p := 0; p < n; p++ {
    for q := p; q < n; q++ {
      v := idx[p*n+q]
      for i := 0; i < n; i++ {
        for j := 0; j < n; j++ {
          s := 0.0
          for k := 0; k < n; k++ {
            lik, ljk := l.ConstAt(i, k), l.ConstAt(j, k)
            dlik, dljk := 0.0, 0.0
            if lik.GetOrder() >= 1 {
              dlik = lik.GetDerivative(v)
            }
            if ljk.GetOrder() >= 1 {
              dljk = ljk.GetDerivative(v)
            }
            s += dlik*ljk.GetFloat64() + lik.GetFloat64()*dljk
          }
          e := 0.0
          if (i == p && j == q) || (i == q && j == p) {
            e = 1.0
          }
          govcCheckEq(fmt.Sprintf("d(LL')[%d,%d]/da%d%d", i, j, p, q), s, e)
        }
      }
    }
  }
}

func GovcCholeskyDerivative2() { govcCholeskyDerivative(2) }
