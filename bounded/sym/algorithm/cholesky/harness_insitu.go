package cholesky

// option combination "caller-supplied in-situ buffers": buffers that already hold other values
// (here: 7 everywhere) must not leak into the factors.

import "fmt"
import . "github.com/pbenner/autodiff"

func govcGarbage(n, m int, real bool) Matrix {
  var a Matrix
  if real {
    a = NullDenseReal64Matrix(n, m)
  } else {
    a = NullDenseFloat64Matrix(n, m)
  }
  for i := 0; i < n; i++ {
    for j := 0; j < m; j++ {
      a.At(i, j).SetFloat64(7.0)
    }
  }
  return a
}

func govcCholeskyInSitu(n int, real bool, ldl bool) {
  a0 := make([]float64, n*n)
  for i := 0; i < n; i++ {
    for j := 0; j < n; j++ {
      if j < i {
        a0[i*n+j] = a0[j*n+i]
      } else {
        a0[i*n+j] = govcSym(fmt.Sprintf("a%d%d", i, j))
      }
    }
  }
  var a Matrix
  if real {
    a = NullDenseReal64Matrix(n, n)
  } else {
    a = NullDenseFloat64Matrix(n, n)
  }
  for i := 0; i < n; i++ {
    for j := 0; j < n; j++ {
      a.At(i, j).SetFloat64(a0[i*n+j])
    }
  }
  inSitu := &InSitu{L: govcGarbage(n, n, real), D: govcGarbage(n, n, real)}
  var l, d Matrix
  var err error
  if ldl {
    l, d, err = Run(a, LDL{true}, inSitu)
  } else {
    l, d, err = Run(a, inSitu)
  }
  if err != nil {
    govcNote("error path")
    return
  }
  for i := 0; i < n; i++ {
    for k := 0; k < n; k++ {
      if k > i {
        govcCheckEq(fmt.Sprintf("L-lower[%d,%d]", i, k), l.ConstAt(i, k).GetFloat64(), 0.0)
      }
      if ldl && k != i {
        govcCheckEq(fmt.Sprintf("D-diag[%d,%d]", i, k), d.ConstAt(i, k).GetFloat64(), 0.0)
      }
      t := 0.0
      for j := 0; j < n; j++ {
        if ldl {
          t += l.ConstAt(i, j).GetFloat64()*d.ConstAt(j, j).GetFloat64()*l.ConstAt(k, j).GetFloat64()
        } else {
          t += l.ConstAt(i, j).GetFloat64()*l.ConstAt(k, j).GetFloat64()
        }
      }
      govcCheckEq(fmt.Sprintf("LL'=A[%d,%d]", i, k), t, a0[i*n+k])
    }
  }
}

func GovcCholeskyInSituDense2() { govcCholeskyInSitu(2, false, false) }
func GovcCholeskyInSituReal2()  { govcCholeskyInSitu(2, true, false) }
func GovcLDLInSituDense2()      { govcCholeskyInSitu(2, false, true) }
func GovcLDLInSituReal2()       { govcCholeskyInSitu(2, true, true) }
