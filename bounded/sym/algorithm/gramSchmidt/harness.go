package gramSchmidt

import "fmt"
import . "github.com/pbenner/autodiff"

func govcSym(name string) float64                { return 0 }
func govcAssume(c bool)                           {}
func govcCheckEq(name string, a, b float64)       {}
func govcCheck(name string, c bool)               {}
func govcNote(s string)                           {}

func govcSymMat(n, m int, real bool, sym bool) (Matrix, []float64) {
  a0 := make([]float64, n*m)
  for i := 0; i < n; i++ {
    for j := 0; j < m; j++ {
      if sym && j < i {
        a0[i*m+j] = a0[j*m+i]
      } else {
        a0[i*m+j] = govcSym(fmt.Sprintf("a%d%d", i, j))
      }
    }
  }
  var a Matrix
  if real {
    a = NullDenseReal64Matrix(n, m)
  } else {
    a = NullDenseFloat64Matrix(n, m)
  }
  for i := 0; i < n; i++ {
    for j := 0; j < m; j++ {
      a.At(i, j).SetFloat64(a0[i*m+j])
    }
  }
  return a, a0
}

func govcGet(a ConstMatrix) ([]float64, int, int) {
  n, m := a.Dims()
  r := make([]float64, n*m)
  for i := 0; i < n; i++ {
    for j := 0; j < m; j++ {
      r[i*m+j] = a.ConstAt(i, j).GetFloat64()
    }
  }
  return r, n, m
}

// c = a*b (a: n x k, b: k x m), row-major
func govcMul(a []float64, n, k int, b []float64, m int) []float64 {
  c := make([]float64, n*m)
  for i := 0; i < n; i++ {
    for j := 0; j < m; j++ {
      s := 0.0
      for l := 0; l < k; l++ {
        s += a[i*k+l]*b[l*m+j]
      }
      c[i*m+j] = s
    }
  }
  return c
}

func govcTr(a []float64, n, m int) []float64 {
  c := make([]float64, n*m)
  for i := 0; i < n; i++ {
    for j := 0; j < m; j++ {
      c[j*n+i] = a[i*m+j]
    }
  }
  return c
}

func govcEqMat(name string, a, b []float64, n, m int) {
  for i := 0; i < n; i++ {
    for j := 0; j < m; j++ {
      govcCheckEq(fmt.Sprintf("%s[%d,%d]", name, i, j), a[i*m+j], b[i*m+j])
    }
  }
}

func govcOrthonormalCols(name string, q []float64, n, m int) {
  qtq := govcMul(govcTr(q, n, m), m, n, q, m)
  for i := 0; i < m; i++ {
    for j := 0; j < m; j++ {
      e := 0.0
      if i == j {
        e = 1.0
      }
      govcCheckEq(fmt.Sprintf("%s[%d,%d]", name, i, j), qtq[i*m+j], e)
    }
  }
}

func govcQR(n, m int, real bool) {
  a, a0 := govcSymMat(n, m, real, false)
  q, r, err := Run(a)
  if err != nil {
    govcCheck("no-error", false)
    return
  }
  qv, _, _ := govcGet(q)
  rv, rn, _ := govcGet(r)
  govcOrthonormalCols("Q'Q=I", qv, n, m)
  // R (n x m storage, upper m x m block used): zero below the diagonal
  for i := 0; i < rn; i++ {
    for j := 0; j < m; j++ {
      if j < i {
        govcCheckEq(fmt.Sprintf("R-upper[%d,%d]", i, j), rv[i*m+j], 0.0)
      }
    }
  }
  // A = Q R with the leading m x m block of R
  rb := make([]float64, m*m)
  for i := 0; i < m; i++ {
    for j := 0; j < m; j++ {
      rb[i*m+j] = rv[i*m+j]
    }
  }
  govcEqMat("QR=A", govcMul(qv, n, m, rb, m), a0, n, m)
  av, _, _ := govcGet(a)
  govcEqMat("input-unchanged", av, a0, n, m)
}

func GovcQRDense2()  { govcQR(2, 2, false) }
func GovcQRDense32() { govcQR(3, 2, false) }
func GovcQRReal2()   { govcQR(2, 2, true) }
func GovcQRDense3()  { govcQR(3, 3, false) }

// caller-supplied Q and R buffers that already hold other values
func govcQRInSitu(n, m int) {
  a, a0 := govcSymMat(n, m, false, false)
  qb := NullDenseFloat64Matrix(n, m)
  rb := NullDenseFloat64Matrix(n, m)
  for i := 0; i < n; i++ {
    for j := 0; j < m; j++ {
      qb.At(i, j).SetFloat64(7.0)
      rb.At(i, j).SetFloat64(7.0)
    }
  }
  q, r, err := Run(a, InSitu{qb, rb})
  if err != nil {
    govcCheck("no-error", false)
    return
  }
  qv, _, _ := govcGet(q)
  rv, rn, _ := govcGet(r)
  govcOrthonormalCols("Q'Q=I", qv, n, m)
  for i := 0; i < rn; i++ {
    for j := 0; j < m; j++ {
      if j < i {
        govcCheckEq(fmt.Sprintf("R-upper[%d,%d]", i, j), rv[i*m+j], 0.0)
      }
    }
  }
  rbk := make([]float64, m*m)
  for i := 0; i < m; i++ {
    for j := 0; j < m; j++ {
      rbk[i*m+j] = rv[i*m+j]
    }
  }
  govcEqMat("QR=A", govcMul(qv, n, m, rbk, m), a0, n, m)
}

func GovcQRInSitu2() { govcQRInSitu(2, 2) }
