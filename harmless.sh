#!/bin/bash
# Must-pass corpus: applies, one after the other, /verif/seeded/harmless/patch.diff (behaviour-preserving edits
# of functions under contract: shifted line numbers, renamed locals that no invariant names, reordered
# independent statements, commuted operands, restructured if/else) and /verif/seeded/harmless/renames.diff
# (renamed receivers, parameters, loop counters and locals that the contracts DO name) to a scratch worktree
# of /repo's HEAD and runs the quick checks of the properties whose functions were edited. Every check must
# exit 0 without a VIOLATION line.
# usage: harmless.sh [property ...]   (default: C01 C02 C04 C06 C08 C09 C10 C11 C12 C14 C19 C20)
cd /verif || exit 2
wt=/tmp/harmless_repo
git -C /repo worktree remove --force $wt 2>/dev/null; rm -rf $wt
git -C /repo worktree add -q --detach $wt HEAD || exit 2
props="$@"; [ -z "$props" ] && props="C01 C02 C04 C06 C08 C09 C10 C11 C12 C14 C19 C20"
bad=0
for patch in patch.diff renames.diff; do
git -C $wt checkout -q -- .
git -C $wt apply /verif/seeded/harmless/$patch || { echo "$patch no longer applies"; git -C /repo worktree remove --force $wt; exit 2; }
echo "== $patch"
for p in $props; do
  log=$(GOVC_REPO=$wt ./bin/govc check --prop $p --tier quick --no-evidence 2>&1); rc=$?
  v=$(echo "$log" | grep -c '^VIOLATION')
  if [ $rc -ne 0 ] || [ "$v" -gt 0 ]; then echo "$p FALSE ALARM (exit $rc, $v violations)"; echo "$log" | grep '^VIOLATION' | head -3; bad=1
  else echo "$p quiet: $(echo "$log" | grep '^property' | sed 's/;.*//')"; fi
done
done
git -C /repo worktree remove --force $wt
exit $bad
