#!/bin/sh
# usage: tools_mut.sh <prop> <func-regex> <file> <sed-expr>   -- apply a one-line mutation to a scratch copy and run the check
prop=$1; fre=$2; file=$3; expr=$4
rm -rf /tmp/mut && mkdir /tmp/mut && (cd /repo && git archive HEAD | tar -x -C /tmp/mut) && cp /repo/zz_contracts*_verif.go /tmp/mut/ 2>/dev/null
for d in $(cd /repo && find . -name 'zz_contracts*_verif.go' -not -path './zz_*' | xargs -n1 dirname | sort -u); do cp /repo/$d/zz_contracts*_verif.go /tmp/mut/$d/; done
(cd /tmp/mut && sed -i "$expr" $file && diff /repo/$file $file | head -6)
(cd /tmp/mut && GOFLAGS=-mod=mod GOPROXY=off GOSUMDB=off GOTOOLCHAIN=local go build ./$(dirname $file)/ 2>&1 | head -3)
cd /verif && GOVC_REPO=/tmp/mut ./bin/govc check --prop $prop --no-evidence --func "$fre" 2>&1 | grep -v "^VIOLATION" | tail -6
